"""Shared machinery of the C08 / C09 checks (half_float::half against specs/Half.tla).

Operand grids and request files (inputs only - nothing here predicts a result); the signature probe (a generated static_assert
table compiled before the driver); the driver builds (software / F16C conversions, a second compiler with -O2 -DNDEBUG, more in
the thorough tier); recording with restart after a row on which the driver crashes or does not return; the enumeration of operand
pairs from the oracle's case analysis (specs/HalfCases.tla, TLC with VIEW = case key); TLC table validation jobs
(specs/HalfCheck.tla); extraction of the failing operand tuple from TLC's counterexample; confirmation by re-execution with the
same build and rounding direction (capped); replay."""
import json, os, random, re, struct, hashlib, subprocess
from concurrent.futures import ThreadPoolExecutor
from vlib import core
from vlib.core import MachineryError

DRIVER_SRC = os.path.join(core.HARNESS, "half", "driver.cpp")

# ------------------------------------------------------------------ encodings (input generation only)
def h2py(bits):
    return struct.unpack("<e", struct.pack("<H", bits & 0xFFFF))[0]


def py2h(x):
    """nearest half bits of a Python float; used only to *choose* operands (e.g. a z close to -x*y)"""
    try:
        return struct.unpack("<H", struct.pack("<e", x))[0]
    except (OverflowError, struct.error):
        return 0x7C00 if x > 0 else 0xFC00


def f32_limbs(bits32):
    return (bits32 >> 16) & 0xFFFF, bits32 & 0xFFFF


def f32_bits(x):
    return struct.unpack("<I", struct.pack("<f", x))[0]


def f64_bits(x):
    return struct.unpack("<Q", struct.pack("<d", x))[0]


def f64_limbs(b):
    return (b >> 48) & 0xFFFF, (b >> 32) & 0xFFFF, (b >> 16) & 0xFFFF, b & 0xFFFF


# ------------------------------------------------------------------ grids
MANT8 = [0, 0x3FF, 1, 0x200, 0x1FF, 0x3FE, 0x201, 2]
MANT_MORE = [3, 4, 5, 7, 8, 0xFF, 0x100, 0x101, 0x155, 0x2AA, 0x300, 0x333, 0x0CC, 0x3FC, 0x3FD, 0x1FE, 0x202, 0x3F0, 0x00F, 0x2FF,
             0x17F, 0x180, 0x3C0, 0x040]


# Operands every grid contains by construction, whatever the seed: both zeros, the smallest and largest subnormal, the
# smallest normal, +-1 and its neighbours, the largest finite value and its predecessor, the values whose sum with the largest
# finite value sits on / next to the overflow threshold (16 = half an ulp of 65504), infinities, quiet and signalling NaNs of
# both signs, the all-ones NaN.
REQUIRED = [0x0000, 0x8000, 0x0001, 0x8001, 0x03FF, 0x83FF, 0x0400, 0x8400, 0x0401, 0x3C00, 0xBC00, 0x3BFF, 0x3C01, 0x7BFF, 0xFBFF, 0x7BFE,
            0x4C00, 0x4BFF, 0x4C01, 0xCC00, 0x7C00, 0xFC00, 0x7E00, 0xFE00, 0x7C01, 0xFC01, 0x7FFF, 0x7DFF]


def require_specials(S, what):
    missing = [h for h in REQUIRED if h not in set(S)]
    if missing:
        raise MachineryError("operand grid %s lacks required special operands %s" % (what, [hex(h) for h in missing]))
    return S


def grid(seed, size, salt=0):
    """Structured boundary grid: the REQUIRED special operands, every exponent x boundary fractions x both signs (zeros,
    subnormals, infinities, quiet and signalling NaNs included), then further fractions, then seeded random halves."""
    rnd = random.Random(seed * 7919 + salt)
    S = []
    seen = set()

    def add(h):
        if h not in seen and len(S) < size:
            seen.add(h)
            S.append(h)
    for h in REQUIRED:
        add(h)
    room = size - max(16, size // 8)          # at least an eighth of the grid is seeded random halves
    for m in MANT8:
        for e in range(32):
            for s in (0, 1):
                if len(S) < room:
                    add((s << 15) | (e << 10) | m)
    extra = list(MANT_MORE)
    rnd.shuffle(extra)
    for m in extra:
        for e in range(31):
            for s in (0, 1):
                if len(S) < room:
                    add((s << 15) | (e << 10) | m)
    while len(S) < size:
        add(rnd.getrandbits(16))
    return require_specials(S, "grid")


def small_grid(seed, size, salt=0):
    """A sub-grid for costly checks: one fraction per exponent and sign, a few boundaries, random rest."""
    rnd = random.Random(seed * 104729 + salt)
    S, seen = [], set()

    def add(h):
        if h not in seen and len(S) < size:
            seen.add(h); S.append(h)
    for h in REQUIRED + [0x7D00]:
        add(h)
    for e in range(31):
        for s in (0, 1):
            add((s << 15) | (e << 10) | rnd.choice(MANT8 + [rnd.getrandbits(10)]))
    while len(S) < size:
        add(rnd.getrandbits(16))
    return require_specials(S, "small_grid")


def hdr(S=None, E=None):
    d = {"k": "hdr", "f": "hdr"}
    if S is not None:
        d["S"] = list(S)
    if E is not None:
        d["E"] = list(E)
    return d


def unary_rows(fns, block=2048, lo=0, hi=65536):
    rows = []
    for f in fns:
        for b in range(lo, hi, block):
            rows.append({"k": "un", "f": f, "base": b, "n": min(block, hi - b)})
    return rows


def bin_rows(f, A):
    return [{"k": "bin", "f": f, "a": a} for a in A]


def float_inputs(seed, quick):
    """binary32 inputs for float->half: for every finite half its exact value, the float neighbours, the
    midpoint to the next half and the float neighbours of that midpoint; float subnormals; the overflow
    threshold; NaNs; seeded random floats."""
    rnd = random.Random(seed * 31337 + 5)
    out = []
    for h in range(0x0000, 0x7C00):              # positive finite halves; sign chosen per value below
        # exact float of h: built from the fields (no arithmetic needed)
        if h == 0:
            fb = 0
        elif h < 0x400:
            L = h.bit_length()
            fb = ((L - 25 + 127) << 23) | ((h << (24 - L)) & 0x7FFFFF)
        else:
            fb = (((h >> 10) - 15 + 127) << 23) | ((h & 0x3FF) << 13)
        # midpoint between h and h+1 in float bits: halves are 2^13 float ulps apart in the normal range
        if h >= 0x400:
            mid = fb + (1 << 12)
            cands = [fb, fb + 1, fb - 1, mid, mid - 1, mid + 1]
        else:
            # subnormal halves: spacing 2^-24; midpoint = (2h+1) * 2^-25
            n = 2 * h + 1
            L = n.bit_length()
            mid = ((L - 26 + 127) << 23) | ((n << (24 - L)) & 0x7FFFFF)
            cands = [fb, fb + 1, max(fb - 1, 0), mid, mid - 1, mid + 1]
        boundary = (h & 0x3FF) in (0, 1, 0x1FF, 0x200, 0x3FE, 0x3FF)
        if quick and (h & 3) != 0 and not boundary:
            cands = cands[:1] + cands[3:4]        # quick: every value exactly + its midpoint; full set on every 4th and at boundaries
        if boundary or h % (64 if quick else 8) == 5:
            # a single sticky bit at every position below the guard bit, above and below the midpoint
            nb = 12 if h >= 0x400 else 24
            for kbit in range(0, nb):
                cands.append(mid + (1 << kbit))
                cands.append(mid - (1 << kbit))
                cands.append(fb + (1 << kbit))
        s = 0x80000000 if (h * 2654435761) & 0x10000 else 0
        for c in cands:
            out.append((c & 0x7FFFFFFF) | s)
    # overflow region, infinities, NaNs, float subnormals and tiny values
    special = [0x477FE000, 0x477FE001, 0x477FEFFF, 0x477FF000, 0x477FF001, 0x477FFFFF, 0x47800000, 0x47800001, 0x7F7FFFFF, 0x7F800000,
               0x7F800001, 0x7FC00000, 0x7FFFFFFF, 0x7FA00000, 0x7F801000, 0x7F802000, 0x7F800FFF, 0x00000000, 0x00000001, 0x007FFFFF, 0x00800000,
               0x33000000, 0x33000001, 0x32FFFFFF, 0x33800000, 0x337FFFFF, 0x33800001, 0x33C00000, 0x33C00001, 0x33BFFFFF, 0x38800000, 0x387FFFFF,
               0x387FE000, 0x387FF000, 0x387FEFFF, 0x387FF001, 0x3F800000]
    for v in special:
        out.append(v)
        out.append(v | 0x80000000)
    for _ in range(20000 if quick else 200000):
        t = rnd.random()
        if t < 0.5:        # exponent range of half, random fraction
            e = rnd.randrange(127 - 27, 127 + 17)
            out.append((rnd.getrandbits(1) << 31) | (e << 23) | rnd.getrandbits(23))
        elif t < 0.8:      # near a half rounding boundary: low 13 bits close to 0x1000
            e = rnd.randrange(127 - 14, 127 + 16)
            low = 0x1000 + rnd.choice([-2, -1, 0, 1, 2, rnd.randrange(-64, 64)])
            out.append((rnd.getrandbits(1) << 31) | (e << 23) | (rnd.getrandbits(10) << 13) | (low & 0x1FFF))
        else:
            out.append(rnd.getrandbits(32))
    return out


def double_inputs(seed, quick):
    """binary64 inputs for double->half: exact values, midpoints, midpoint +- one double ulp and midpoint +-
    an amount below half a *float* ulp (a conversion that first rounds to float would turn these into ties)."""
    rnd = random.Random(seed * 271 + 9)
    out = []
    step = 16 if quick else 4
    for h in range(0, 0x7C00):
        if h % step and (h & 0x3FF) not in (0, 1, 0x1FF, 0x200, 0x3FE, 0x3FF):
            continue
        if h == 0:
            db = 0
        elif h < 0x400:
            L = h.bit_length()
            db = ((L - 25 + 1023) << 52) | ((h << (53 - L)) & ((1 << 52) - 1))
        else:
            db = (((h >> 10) - 15 + 1023) << 52) | ((h & 0x3FF) << 42)
        if h >= 0x400:
            mid = db + (1 << 41)
        else:
            n = 2 * h + 1
            L = n.bit_length()
            mid = ((L - 26 + 1023) << 52) | ((n << (53 - L)) & ((1 << 52) - 1))
        s = (1 << 63) if (h * 2654435761) & 0x20000 else 0
        cs = [db, db + 1, max(db - 1, 0), mid, mid + 1, mid - 1, mid + (1 << 20), mid - (1 << 20), mid + (1 << 28), mid - (1 << 28),
              mid + rnd.getrandbits(29), mid - rnd.getrandbits(29), db + rnd.getrandbits(41)]
        if (h & 0x3FF) in (0, 0x3FF, 0x200) or h % 128 == 5:
            for kbit in range(0, 41, 1 if not quick else 3):      # a single sticky bit at each position
                cs += [mid + (1 << kbit), mid - (1 << kbit), db + (1 << kbit)]
        for c in cs:
            out.append((c & ((1 << 63) - 1)) | s)
    special = [0x40EFFC0000000000, 0x40EFFE0000000000, 0x40EFFDFFFFFFFFFF, 0x40EFFE0000000001, 0x40F0000000000000, 0x7FEFFFFFFFFFFFFF,
               0x7FF0000000000000, 0x7FF0000000000001, 0x7FF8000000000000, 0x7FFFFFFFFFFFFFFF, 0x7FF0000100000000, 0, 1, 0x000FFFFFFFFFFFFF,
               0x0010000000000000, 0x3E60000000000000, 0x3E60000000000001, 0x3E5FFFFFFFFFFFFF, 0x3E70000000000000, 0x3E78000000000000,
               0x3E78000000000001, 0x3FF0000000000000, 0x3FF0020000000000, 0x3FF0020000000001, 0x3FF001FFFFFFFFFF, 0x3FF0060000000000,
               0x3FF0020010000000, 0x3FF0060000000001 - 2, 0x36A0000000000000, 0x47EFFFFFE0000000]
    for v in special:
        out.append(v)
        out.append(v | (1 << 63))
    for _ in range(5000 if quick else 50000):
        e = rnd.randrange(1023 - 27, 1023 + 17)
        out.append((rnd.getrandbits(1) << 63) | (e << 52) | rnd.getrandbits(52))
    return out


def int_inputs(seed, quick):
    rnd = random.Random(seed * 17 + 3)
    out = list(range(-4200, 4201)) if quick else list(range(-70000, 70001))
    for k in range(11, 31):
        for d in (-2, -1, 0, 1, 2):
            for s in (1, -1):
                out.append(s * ((1 << k) + d))
                out.append(s * ((1 << k) + (1 << (k - 11)) + d))       # a rounding midpoint of an 11-bit significand
                out.append(s * ((1 << k) + 3 * (1 << (k - 11)) + d))
    out += [65503, 65504, 65505, 65519, 65520, 65521, 65535, 65536, -65519, -65520, -65521, 2147483647, -2147483647, 1073741823, 1073741824, 1073741825]
    for _ in range(3000 if quick else 30000):
        out.append(rnd.randrange(-70000, 70000))
        out.append(rnd.randrange(-(1 << 31) + 1, 1 << 31))
    return [v for v in out if -(1 << 31) < v < (1 << 31)]


def fma_triples(seed, n, S):
    """x, y from the structured grid or random; z random, from the grid, or chosen close to -x*y (cancellation),
    or far below/above the product (sticky paths)."""
    rnd = random.Random(seed * 991 + 77)
    X, Y, Z = [], [], []
    fin = [h for h in S if (h & 0x7C00) != 0x7C00]
    for _ in range(n):
        t = rnd.random()
        x = rnd.choice(S) if t < 0.35 else rnd.getrandbits(16)
        y = rnd.choice(S) if rnd.random() < 0.35 else rnd.getrandbits(16)
        u = rnd.random()
        if u < 0.40:
            p = h2py(x) * h2py(y)
            if p != p or p in (float("inf"), float("-inf")):
                z = rnd.choice(S)
            else:
                z = py2h(-p)
                z = (z + rnd.choice([0, 0, 1, -1, 2, -2, 1 << 10, -(1 << 10), rnd.randrange(-40, 40)])) & 0xFFFF
        elif u < 0.55:
            p = h2py(x) * h2py(y)
            if p != p or p in (float("inf"), float("-inf")) or p == 0:
                z = rnd.choice(fin)
            else:
                k = rnd.choice([-30, -24, -23, -22, -13, -12, -11, -10, 10, 11, 12, 13, 22, 23, 24])
                z = py2h(p * 2.0 ** k * rnd.choice([1, -1]) * rnd.choice([1.0, 1.5, 1.0009765625, 1.9990234375]))
        elif u < 0.75:
            z = rnd.choice(S)
        else:
            z = rnd.getrandbits(16)
        X.append(x); Y.append(y); Z.append(z)
    return X, Y, Z


def chunks(xs, n):
    return [xs[i:i + n] for i in range(0, len(xs), n)]


# ------------------------------------------------------------------ signature probe
# The calls the driver makes, with the result types C / C++ <cmath> fix for them.  Each row is one static_assert; the table is
# compiled before the driver is.  A row that fails (or no longer compiles) is a finding about xtl - the operation the property
# names is not there with its signature - and is reported as such instead of ending in "the harness does not compile".
def _probe_rows():
    H = "half_float::half"
    rows = [("sizeof(half) == 2", "sizeof(H) == 2"),
            ("half is trivially copyable (its bits are its value)", "std::is_trivially_copyable<H>::value")]

    def same(what, expr, typ):
        rows.append(("%s has type %s" % (what, typ), "std::is_same<decltype(%s), %s>::value" % (expr, typ)))
    for op in ("+", "-", "*", "/"):
        same("half %s half" % op, "h() %s h()" % op, "H")
    for op in ("+=", "-=", "*=", "/="):
        same("half %s half" % op, "lv() %s h()" % op, "H&")
    same("-half", "-h()", "H"); same("+half", "+h()", "H")
    same("++half", "++lv()", "H&"); same("half++", "lv()++", "H"); same("--half", "--lv()", "H&"); same("half--", "lv()--", "H")
    for op in ("==", "!=", "<", ">", "<=", ">="):
        same("half %s half" % op, "h() %s h()" % op, "bool")
        same("half %s float" % op, "h() %s 1.0f" % op, "bool")
    for f in ("isnan", "isinf", "isfinite", "isnormal", "signbit"):
        same(f + "(half)", "half_float::%s(h())" % f, "bool")
    for f in ("isgreater", "isgreaterequal", "isless", "islessequal", "islessgreater", "isunordered"):
        same(f + "(half, half)", "half_float::%s(h(), h())" % f, "bool")
    same("fpclassify(half)", "half_float::fpclassify(h())", "int")
    for f in ("fabs", "abs", "sqrt", "ceil", "floor", "trunc", "round", "rint", "nearbyint", "logb", "exp", "exp2", "expm1", "log", "log10", "log2",
              "log1p", "cbrt", "sin", "cos", "tan", "asin", "acos", "atan", "sinh", "cosh", "tanh", "asinh", "acosh", "atanh", "erf", "erfc",
              "lgamma", "tgamma"):
        same(f + "(half)", "half_float::%s(h())" % f, "H")
    for f in ("copysign", "fmod", "remainder", "fdim", "fmax", "fmin", "nextafter", "atan2", "pow", "hypot"):
        same(f + "(half, half)", "half_float::%s(h(), h())" % f, "H")
    same("fma(half, half, half)", "half_float::fma(h(), h(), h())", "H")
    same("hypot(half, half, half)", "half_float::hypot(h(), h(), h())", "H")
    same("remquo(half, half, int*)", "half_float::remquo(h(), h(), (int*)0)", "H")
    same("frexp(half, int*)", "half_float::frexp(h(), (int*)0)", "H")
    same("modf(half, half*)", "half_float::modf(h(), (H*)0)", "H")
    same("sincos(half, half*, half*)", "half_float::sincos(h(), (H*)0, (H*)0)", "void")
    same("ldexp(half, int)", "half_float::ldexp(h(), 1)", "H"); same("scalbn(half, int)", "half_float::scalbn(h(), 1)", "H")
    same("scalbln(half, long)", "half_float::scalbln(h(), 1L)", "H")
    same("nexttoward(half, long double)", "half_float::nexttoward(h(), 1.0L)", "H")
    same("ilogb(half)", "half_float::ilogb(h())", "int")
    same("lround(half)", "half_float::lround(h())", "long"); same("lrint(half)", "half_float::lrint(h())", "long")
    same("llround(half)", "half_float::llround(h())", "long long"); same("llrint(half)", "half_float::llrint(h())", "long long")
    same("nanh(const char*)", 'half_float::nanh("")', "H")
    same("static_cast<float>(half)", "static_cast<float>(h())", "float")
    for t in ("float", "double", "long double", "int", "long", "long long"):
        same("half_cast<%s>(half)" % t, "half_float::half_cast<%s>(h())" % t, t)
    for t, v in (("float", "1.0f"), ("double", "1.0"), ("long double", "1.0L"), ("int", "1"), ("long", "1L"), ("long long", "1LL"), ("short", "(short)1"),
                 ("unsigned", "1u"), ("signed char", "(signed char)1")):
        same("half_cast<half>(%s)" % t, "half_float::half_cast<H>(%s)" % v, "H")
    same("half_cast<half>(half)", "half_float::half_cast<H>(h())", "H")
    same("std::hash<half>()(half)", "std::hash<H>()(h())", "std::size_t")
    rows.append(("half is constructible from float, double and int", "std::is_constructible<H, float>::value && std::is_constructible<H, double>::value && std::is_constructible<H, int>::value"))
    rows.append(("half is assignable from float", "std::is_assignable<H&, float>::value"))
    rows.append(("std::numeric_limits<half> is specialised", "std::numeric_limits<H>::is_specialized"))
    for m in ("min", "lowest", "max", "epsilon", "round_error", "infinity", "quiet_NaN", "signaling_NaN", "denorm_min"):
        same("numeric_limits<half>::%s()" % m, "std::numeric_limits<H>::%s()" % m, "H")
    for m in ("digits", "digits10", "max_digits10", "radix", "min_exponent", "min_exponent10", "max_exponent", "max_exponent10"):
        same("numeric_limits<half>::%s" % m, "std::numeric_limits<H>::%s" % m, "const int")
    for m in ("is_signed", "is_integer", "is_exact", "is_bounded", "is_iec559", "has_infinity", "has_quiet_NaN", "has_signaling_NaN", "traps", "tinyness_before",
              "is_modulo", "has_denorm_loss"):
        same("numeric_limits<half>::%s" % m, "std::numeric_limits<H>::%s" % m, "const bool")
    same("numeric_limits<half>::has_denorm", "std::numeric_limits<H>::has_denorm", "const std::float_denorm_style")
    same("numeric_limits<half>::round_style", "std::numeric_limits<H>::round_style", "const std::float_round_style")
    same("HUGE_VALH", "HUGE_VALH", "H")
    same("HLF_ROUNDS", "HLF_ROUNDS", "int")
    same("operator<<(ostream&, half)", "std::declval<std::ostream&>() << h()", "std::ostream&")
    same("operator>>(istream&, half&)", "std::declval<std::istream&>() >> lv()", "std::istream&")
    same("a _h literal", "half_float::literal::operator\"\"_h(1.0L)", "H")
    return rows


PROBE_HEAD = """#include <type_traits>
#include <utility>
#include <functional>
#include <limits>
#include <iostream>
#include "xtl/xhalf_float.hpp"
typedef half_float::half H;
static H h();
static H& lv();
"""


def probe_signatures(ctx, what):
    """Compile the signature table against the tree under test.  Returns the number of rows that fail; each failing row is a
    violation (confirmed by compiling that row alone)."""
    rows = _probe_rows()
    d = ctx.sub("probe")
    nhead = PROBE_HEAD.count("\n")

    def src(sel):
        # one row per line, a placeholder line for rows left out: line number <-> row
        body = "".join(("static_assert(%s, \"ROW %d\");\n" % (expr, n)) if sel is None or n in sel else "\n" for n, (_, expr) in enumerate(rows))
        return PROBE_HEAD + body + "int main() { return 0; }\n"

    def compile_(name, sel):
        path = os.path.join(d, name + ".cpp")
        with open(path, "w") as f:
            f.write(src(sel))
        rc, out = core.sh([core.CXX, "-std=c++14", "-fsyntax-only", "-fmax-errors=0", "-I", core.INCLUDE, path], timeout=600)
        return rc, out, path
    rc, out, path = compile_("all", None)
    ctx.notes["signature_probe_rows"] = len(rows)
    if rc == 0:
        return 0
    if rc == 124:
        raise MachineryError("signature probe timed out")
    # which rows?  the diagnostics name the line of the probe file
    bad = sorted(set(int(m) - nhead - 1 for m in re.findall(re.escape(path) + r":(\d+):\d+: error", out)))
    bad = [n for n in bad if 0 <= n < len(rows)]
    if not bad:
        rc0, out0, _ = compile_("none", set())
        if rc0 != 0:
            raise MachineryError("xtl/xhalf_float.hpp itself does not compile under the tree under test:\n%s" % "\n".join(l for l in out0.splitlines() if "error" in l)[:3000])
        raise MachineryError("signature probe fails but no row can be blamed:\n%s" % out[-3000:])
    confirmed = 0
    for n in bad[:8]:
        rc2, out2, _ = compile_("row%d" % n, {n})
        if rc2 == 0:
            raise MachineryError("non-reproducible probe failure of row %d (%s)" % (n, rows[n][0]))
        first = [l.split("error:", 1)[1].strip() for l in out2.splitlines() if "error:" in l][:2]
        ctx.violation("%s: the operation the check calls no longer has the signature C/C++ <cmath> gives it: %s [static_assert(%s)]: %s" % (
            what, rows[n][0], rows[n][1], " | ".join(first)[:600]),
            replay_lines=[{"k": "probe", "row": n, "what": rows[n][0], "static_assert": rows[n][1]}])
        confirmed += 1
    if len(bad) > 8:
        ctx.log("%d further signature rows fail: %s" % (len(bad) - 8, [rows[n][0] for n in bad[8:]]))
    return len(bad)


# ------------------------------------------------------------------ harness
class Drivers:
    """The driver builds.  The first one is the reference recording (software conversions)."""
    def __init__(self, items):
        self.items = items                   # [(tag, path, description)]

    def path(self, tag):
        for t, p, _ in self.items:
            if t == tag:
                return p
        raise MachineryError("no driver build %r" % tag)

    @property
    def ref(self):
        return self.items[0][0]


def flavours(ctx):
    """Build configurations of the driver: with and without the F16C intrinsics path (the property's two paths), and - the
    compiler / optimisation / NDEBUG axis - a clang++ -O2 -DNDEBUG -march=native build (the flags the xtl test-suite itself is
    built with); the thorough tier adds g++ -O0 and g++ -O2 -std=c++17."""
    fl = [("sw", None, ["-mno-f16c"], "g++ -O1 -mno-f16c (software conversions)"),
          ("f16c", None, ["-mf16c"], "g++ -O1 -mf16c (F16C intrinsics)"),
          ("clang", "clang++", ["-O2", "-DNDEBUG", "-march=native"], "clang++ -O2 -DNDEBUG -march=native")]
    if not ctx.quick:
        fl.append(("O0", None, ["-O0", "-mno-f16c"], "g++ -O0 -mno-f16c"))
        fl.append(("O2cxx17", None, ["-O2", "-std=c++17", "-DNDEBUG", "-march=native"], "g++ -O2 -std=c++17 -DNDEBUG -march=native"))
    only = os.environ.get("VERIF_HALF_BUILDS")
    if only:
        fl = [f for f in fl if f[0] in only.split(",") or f[0] == "sw"]
    return fl


def build_drivers(ctx, what="C08/C09"):
    """Probe the signatures, then build the driver in every flavour.  Returns None when the tree under test no longer offers
    the operations with their signatures (violations have been recorded then)."""
    nbad = probe_signatures(ctx, what)
    fl = flavours(ctx)
    items = [(tag, os.path.join(ctx.work, "half_driver_" + tag), desc) for tag, _, _, desc in fl]
    try:
        core.build_many(ctx, [dict(src=DRIVER_SRC, out=out, flags=flags, asan=False, cxx=cxx) for (tag, cxx, flags, _), (_, out, _) in zip(fl, items)])
    except MachineryError:
        if nbad:
            ctx.log("the driver does not build against this tree; %d signature rows failed and are reported" % nbad)
            return None
        raise
    # the F16C build must really use the intrinsics and the software build must not
    for tag, path, _ in items:
        if tag not in ("sw", "f16c"):
            continue
        want = tag == "f16c"
        rc, out = core.sh(["objdump", "-d", "--no-show-raw-insn", path], timeout=120)
        has = ("vcvtps2ph" in out) or ("vcvtph2ps" in out)
        if rc == 0 and has != want:
            raise MachineryError("harness build %s: F16C instructions %s" % (path, "missing" if want else "unexpectedly present"))
    with open("/proc/cpuinfo") as f:
        if "f16c" not in f.read():
            raise MachineryError("this CPU has no F16C: the intrinsics path cannot be executed")
    ctx.notes["driver_builds"] = {tag: desc for tag, _, desc in items}
    return Drivers(items)


ROW_LIMIT = 5           # CPU seconds one request row may take inside the driver before it closes the table with a Crash line
MAX_RESTARTS = 6        # crashed / hanging rows skipped per table before the rest of the table is given up


def run_driver(ctx, drv, req_path, out_path, timeout=1200, hang_ok=False):
    with open(req_path) as fin, open(out_path, "w") as fout:
        try:
            p = subprocess.run([drv], stdin=fin, stdout=fout, stderr=subprocess.PIPE, timeout=timeout,
                               env=dict(os.environ, VERIF_HALF_ROW_LIMIT=str(ROW_LIMIT)))
        except subprocess.TimeoutExpired:
            if hang_ok:
                return 124
            raise MachineryError("harness timed out on %s" % req_path)
    if p.returncode == 3:
        raise MachineryError("harness rejected request %s: %s" % (req_path, p.stderr.decode(errors="replace")[-500:]))
    return p.returncode


def write_req(path, rows):
    with open(path, "w") as f:
        for r in rows:
            f.write(json.dumps(r, separators=(",", ":")) + "\n")


def file_sha(path):
    h = hashlib.sha256()
    with open(path, "rb") as f:
        for b in iter(lambda: f.read(1 << 20), b""):
            h.update(b)
    return h.hexdigest()


def record(ctx, drv, rows, out_path):
    """Run the driver on the request rows (rows[0] is the header).  A row on which the driver crashes or does not return is
    an incident; the driver is restarted on the rows after it, so the table holds every row that could be evaluated.
    Returns (incidents, kept_rows): incidents = [{"row": request row, "why": ...}]."""
    incidents, kept = [], [rows[0]]
    pending = list(rows[1:])
    part = 0
    with open(out_path, "w") as fout:
        while True:
            req = out_path + ".req%d" % part
            tmp = out_path + ".part%d" % part
            write_req(req, [rows[0]] + pending)
            rc = run_driver(ctx, drv, req, tmp)
            done, why = 0, None
            with open(tmp) as f:
                for n, line in enumerate(f):
                    if line.startswith('{"op":"Crash"'):
                        try:
                            why = json.loads(line).get("why", "crash")
                        except ValueError:
                            why = "crash"
                        break
                    if not line.strip():
                        continue
                    if n == 0 and line.startswith('{"k":"hdr"'):
                        if part == 0:
                            fout.write(line)
                        continue
                    if not line.endswith("}\n"):
                        break                      # a torn last line: the process died while printing
                    fout.write(line)
                    done += 1
            os.remove(tmp)
            os.remove(req)
            kept += pending[:done]
            if done >= len(pending) and why is None and rc == 0:
                break
            if done >= len(pending):
                # every row was printed and the process still ended badly (at exit): an incident without a row of its own
                incidents.append({"row": None, "why": why or "exit status %d" % rc})
                break
            incidents.append({"row": pending[done], "why": why or "exit status %d" % rc})
            pending = pending[done + 1:]
            part += 1
            if not pending:
                break
            if len(incidents) > MAX_RESTARTS:
                incidents.append({"row": None, "why": "gave up after %d incidents; %d rows of this table were not evaluated" % (len(incidents), len(pending))})
                break
    return incidents, kept


def crash_row(table_path):
    """If the harness crashed the table ends with a Crash line: return (index of the request that crashed, why)."""
    n = 0
    with open(table_path) as f:
        for line in f:
            if line.startswith('{"op":"Crash"'):
                try:
                    return n, json.loads(line).get("why", "crash")
                except ValueError:
                    return n, "crash"
            if line.strip():
                n += 1
    return None


# ------------------------------------------------------------------ TLC
_RE_STATE = re.compile(r"State \d+: .*?\n(.*?)(?=\n\s*\nState \d+:|\n\s*\n\d+ states generated|\Z)", re.S)


def parse_counterexample(out):
    """The last state of TLC's error trace, printed through the ALIAS Explain."""
    m0 = re.search(r"is violated by the initial state:\s*\n(.*?)(?:\n\s*\n|\Z)", out, re.S)
    if m0:
        b = m0.group(1)
    else:
        blocks = _RE_STATE.findall(out)
        if not blocks:
            return None
        b = blocks[-1]
    d = {"text": re.sub(r"\s+", " ", b.strip())}
    for key in ("l", "j"):
        m = re.search(r"/\\ %s = (\d+)" % key, b)
        if m:
            d[key] = int(m.group(1))
    m = re.search(r'/\\ f = "(\w+)"', b)
    if m:
        d["f"] = m.group(1)
    return d if "l" in d and "j" in d else None


def replay_rows(table_path, l, j, build=None):
    """The request (header + one row restricted to column j) that reproduces evaluation (l, j) of a table, with everything the
    evaluation depended on: the row's rounding direction ("rm") and the driver build it was recorded with (header "build")."""
    hdr_row, row = None, None
    with open(table_path) as f:
        for i, line in enumerate(f, 1):
            if i == 1:
                hdr_row = json.loads(line)
            if i == l:
                row = json.loads(line)
                break
    if row is None:
        raise MachineryError("cannot find row %d in %s" % (l, table_path))
    k = row["k"]
    c = j - 1
    h = {"k": "hdr", "f": "hdr"}
    if build:
        h["build"] = build
    if k == "un":
        r = {"k": "un", "f": row["f"], "base": row["base"] + c, "n": 1}
        if "cr" in row:
            r["cr"] = row["cr"]
    elif k in ("bin", "nt"):
        h["S"] = [hdr_row["S"][c]]
        r = {"k": k, "f": row["f"], "a": row["a"]}
    elif k == "ld":
        h["E"] = [hdr_row["E"][c]]
        r = {"k": k, "f": row["f"], "a": row["a"]}
    else:
        r = {"k": k, "f": row["f"]}
        if "cr" in row:
            r["cr"] = row["cr"]
        for key in ("hi", "lo", "w3", "w2", "w1", "w0", "x", "y", "z", "t"):
            if key in row:
                r[key] = [row[key][c]]
    if "rm" in row:
        r["rm"] = row["rm"]        # the rounding direction the row was evaluated under
    return [h, r]


def _isnan16(h):
    return (h & 0x7FFF) > 0x7C00


def diff_recordings(t_a, t_b):
    """Where do two recordings of the same request differ?  Returns (summary per function, list of differences at operands none
    of which is a NaN).  IEEE 754 leaves the payload/quiet bit of a NaN result open, so differences at NaN operands are not
    findings; any other difference contradicts 'bit-identical whichever way the library is compiled'."""
    summ, hard = {}, []
    with open(t_a) as fa, open(t_b) as fb:
        S = []
        for ln, (la, lb) in enumerate(zip(fa, fb), 1):
            if la == lb:
                if ln == 1:
                    h = json.loads(la); S = h.get("S", [])
                continue
            a, b = json.loads(la), json.loads(lb)
            k = a.get("k")
            for key in ("r", "r2", "r3", "r4", "r5", "r6", "r7", "r8"):
                if key not in a or a[key] == b.get(key):
                    continue
                for c, (x, y) in enumerate(zip(a[key], b[key])):
                    if x == y:
                        continue
                    if k == "un":
                        nan = _isnan16(a["base"] + c)
                    elif k == "ux":
                        nan = _isnan16(a["x"][c])
                    elif k in ("bin", "nt"):
                        nan = _isnan16(a["a"]) or _isnan16(S[c])
                    elif k == "ld":
                        nan = _isnan16(a["a"])
                    elif k in ("f2h", "sf2h"):
                        nan = (a["hi"][c] & 0x7F80) == 0x7F80 and ((a["hi"][c] & 0x7F) or a["lo"][c])
                    elif k == "d2h":
                        nan = (a["w3"][c] & 0x7FF0) == 0x7FF0 and ((a["w3"][c] & 0xF) or a["w2"][c] or a["w1"][c] or a["w0"][c])
                    elif k in ("fma", "tri"):
                        nan = _isnan16(a["x"][c]) or _isnan16(a["y"][c]) or _isnan16(a["z"][c])
                    elif k == "pair":
                        nan = _isnan16(a["x"][c]) or _isnan16(a["y"][c])
                    else:
                        nan = False
                    summ[a["f"]] = summ.get(a["f"], 0) + 1
                    if not nan and len(hard) < 20:
                        hard.append({"l": ln, "j": c + 1, "f": a["f"], "field": key, "first": x, "second": y})
    return summ, hard


class Job:
    def __init__(self, name, rows, hang_timeout=None):
        self.name, self.rows = name, rows     # rows: list, or a callable that produces it when the job starts
        self.n_eval = 0
        self.hang_timeout = hang_timeout      # kept for compatibility: every row now has a CPU limit inside the driver


HANG_TIMEOUT = 60
MAX_CONFIRM = 8          # rejections re-executed and reported with a replay; further ones are counted


def count_evals(rows, per_fn=None):
    S = E = 0
    n = 0
    for r in rows:
        n0 = n
        k = r["k"]
        if k == "hdr":
            S, E = len(r.get("S", [])), len(r.get("E", []))
        elif k == "un":
            n += r["n"]
        elif k in ("bin", "nt"):
            n += S
        elif k == "ld":
            n += E
        else:
            for key in ("hi", "w3", "x", "t"):
                if key in r:
                    n += len(r[key])
                    break
        if per_fn is not None and k != "hdr":
            per_fn[r["f"]] = per_fn.get(r["f"], 0) + (n - n0)
    return n


def validate_jobs(ctx, jobs, drivers, parallel=None, workers=None, what="C08"):
    """For each job: run every driver build, compare the recordings, let TLC validate the reference recording and every
    recording that differs from an already validated one.  Violations are confirmed by re-execution before they are reported.
    Returns the list of per-job summaries."""
    tdir = ctx.sub("tables")
    only = os.environ.get("VERIF_HALF_ONLY")          # development aid: run only the jobs whose name starts with one of these prefixes
    if only:
        jobs = [j for j in jobs if any(j.name.startswith(p) for p in only.split(","))]
        ctx.notes["job_filter"] = "PARTIAL RUN: VERIF_HALF_ONLY=%s" % only
        ctx.log("PARTIAL RUN (VERIF_HALF_ONLY=%s): %d jobs" % (only, len(jobs)))
    workers = workers or 2
    parallel = parallel or max(2, core.NCPU // 2)
    if os.environ.get("VERIF_NCPU"):
        parallel = max(1, min(parallel, core.NCPU // workers))
    summaries = []

    def one(job):
        if callable(job.rows):
            job.rows = job.rows()
        job.per_fn = {}
        job.n_eval = count_evals(job.rows, job.per_fn)
        res = {"job": job.name, "evaluations": job.n_eval, "identical": True, "f16c_identical": True, "fails": [], "validated_tables": 0}
        tabs = {}
        for tag, drv, _ in drivers.items:
            path = os.path.join(tdir, "%s.%s.ndjson" % (job.name, tag))
            inc, kept = record(ctx, drv, job.rows, path)
            tabs[tag] = {"path": path, "incidents": inc, "kept": kept, "sha": file_sha(path)}
            for i in inc:
                res["fails"].append({"build": tag, "incident": i, "hdr": job.rows[0]})
        ref = drivers.ref
        validated = {}
        for tag, _, _ in drivers.items:
            t = tabs[tag]
            if t["sha"] in validated:
                continue
            if tag != ref:
                res["identical"] = False
                if tag == "f16c":
                    res["f16c_identical"] = False
                if not t["incidents"] and not tabs[ref]["incidents"]:
                    summ, hard = diff_recordings(tabs[ref]["path"], t["path"])
                    res.setdefault("build_diff", {})[tag] = summ
                    for hd in hard[:3]:
                        res["fails"].append({"build": tag, "table": t["path"], "l": hd["l"], "j": hd["j"], "f": hd["f"], "builds_differ": hd,
                                             "text": "results differ between the builds %s and %s: %s" % (ref, tag, json.dumps(hd))})
            n_eval = count_evals(t["kept"])
            if n_eval:
                r = core.tlc(ctx, "HalfCheck", "HalfCheck.cfg", name="chk-%s-%s" % (job.name, tag), workers=workers,
                             env={"TABLE": t["path"]}, heap="5g", timeout=3000)
                res.setdefault("tlc", []).append({"build": tag, "states": r["distinct"], "wall_s": r["wall_s"]})
                und = sorted(set(re.findall(r'<<"UNDECIDED", "(\w+)", (\d+)', r["out"])))
                if und:
                    res.setdefault("undecided", []).extend([{"f": f, "x": int(x), "build": tag} for f, x in und])
                if r["violated"]:
                    ce = parse_counterexample(r["out"])
                    if ce is None:
                        raise MachineryError("TLC reported %s but no counterexample could be read, see %s" % (r["violated"], r["outfile"]))
                    ce["build"], ce["table"] = tag, t["path"]
                    res["fails"].append(ce)
                elif r["distinct"] != n_eval:
                    raise MachineryError("TLC visited %d states, the table %s has %d evaluations (see %s)" % (r["distinct"], t["path"], n_eval, r["outfile"]))
                r["out"] = ""
                res["validated_tables"] += 1
            validated[t["sha"]] = tag
        return res

    with ThreadPoolExecutor(max_workers=parallel) as ex:
        for res in ex.map(one, jobs):
            summaries.append(res)
            ctx.cov["evaluations"] += res["evaluations"] * max(1, res["validated_tables"])
    per_fn = {}
    for job in jobs:
        for f, c in getattr(job, "per_fn", {}).items():
            per_fn[f] = per_fn.get(f, 0) + c
    ctx.notes["evaluations_per_function"] = per_fn
    ctx.notes["vacuous_functions"] = sorted(f for f, c in per_fn.items() if c == 0)
    report_fails(ctx, [fl for res in summaries for fl in res["fails"]], drivers, what)
    return summaries


def report_fails(ctx, fails, drivers, what):
    """Confirm (re-execute alone, same build, same rounding direction) and report.  At most MAX_CONFIRM rejections are
    re-executed - one per function and kind first - the others are counted: a pervasive defect must not make the check crawl."""
    if not fails:
        return

    def kind(fl):
        if "incident" in fl:
            return ("incident", (fl["incident"].get("row") or {}).get("f", "?"))
        return ("differ" if "builds_differ" in fl else "spec", fl.get("f", "?"))
    seen, first, rest = set(), [], []
    for fl in fails:
        k = kind(fl)
        (rest if k in seen else first).append(fl)
        seen.add(k)
    chosen = (first + rest)[:MAX_CONFIRM]
    skipped = len(fails) - len(chosen)
    with ThreadPoolExecutor(max_workers=max(1, min(4, core.NCPU // 2))) as ex:
        outcomes = list(ex.map(lambda fl: confirm(ctx, fl, drivers), chosen))
    nonrepro = []
    for fl, (ok, text, rows) in zip(chosen, outcomes):
        if ok:
            ctx.violation("%s: %s" % (what, text), replay_lines=rows)
        else:
            nonrepro.append(text)
    if skipped:
        ctx.log("%d further rejected evaluations were not re-executed (kinds: %s)" % (skipped, sorted(set(kind(f) for f in (first + rest)[MAX_CONFIRM:]))[:12]))
        ctx.notes["rejections_not_reexecuted"] = skipped
    if nonrepro and not ctx.violations:
        raise MachineryError("non-reproducible rejection(s): " + " || ".join(nonrepro)[:1500])
    for t in nonrepro:
        ctx.log("non-reproducible (not reported): " + t[:400])


def confirm(ctx, fl, drivers):
    """-> (confirmed, text, replay rows)"""
    tag = fl["build"]
    drv = drivers.path(tag)
    if "incident" in fl:
        inc = fl["incident"]
        if inc["row"] is None:
            return True, "the harness (build %s) ended abnormally: %s" % (tag, inc["why"]), [dict(fl["hdr"], build=tag)]
        rows = [dict(fl["hdr"], build=tag), inc["row"]]
        ok, ce = run_replay(ctx, drv, rows, "confirm-incident-%s-%s-%d" % (tag, inc["row"].get("f", "x"), id(fl) % 100000))
        if ok or not (ce or {}).get("incident"):
            return False, "harness incident (%s) on %s did not repeat" % (inc["why"], json.dumps(inc["row"])[:300]), rows
        return True, ("a call %s: the harness (build %s) %s while evaluating %s (twice)" % (
            "does not return" if inc["why"] == "timeout" else "crashes", tag,
            "used more than %d s of CPU on one request row" % ROW_LIMIT if inc["why"] == "timeout" else "ended with %s" % inc["why"],
            json.dumps(inc["row"])[:300])), rows
    rows = replay_rows(fl["table"], fl["l"], fl["j"], build=tag)
    if "builds_differ" in fl:
        d = ctx.sub("replay")
        req = os.path.join(d, "diff-%s-%d-%d.req" % (tag, fl["l"], fl["j"]))
        write_req(req, rows)
        run_driver(ctx, drivers.path(drivers.ref), req, req + ".ref")
        run_driver(ctx, drv, req, req + ".other")
        if file_sha(req + ".ref") == file_sha(req + ".other"):
            return False, "difference between the builds did not repeat: %s" % fl["text"], rows
        return True, "result not bit-identical between two builds of the library at a non-NaN operand: %s" % fl["text"], rows
    ok, ce = run_replay(ctx, drv, rows, "confirm-%s-%s-%d-%d" % (tag, fl.get("f", "x"), fl["l"], fl["j"]))
    if ok:
        return False, "%s was rejected in the table run but accepted when re-executed alone" % fl["text"][:400], rows
    return True, "half_float::half disagrees with Half.tla (build %s): %s" % (tag, (ce or fl)["text"][:1500]), rows


def run_replay(ctx, drv, rows, name):
    d = ctx.sub("replay")
    req = os.path.join(d, name + ".req")
    tab = os.path.join(d, name + ".ndjson")
    write_req(req, rows)
    if run_driver(ctx, drv, req, tab, timeout=HANG_TIMEOUT + 2 * ROW_LIMIT, hang_ok=True) == 124:
        return False, {"text": "the call does not terminate (harness still running after %d s)" % (HANG_TIMEOUT + 2 * ROW_LIMIT), "incident": True}
    cr = crash_row(tab)
    if cr is not None:
        return False, {"text": "harness ended with %s" % cr[1], "incident": True}
    if count_evals(rows) == 0:
        return True, None
    r = core.tlc(ctx, "HalfCheck", "HalfCheck.cfg", name=name, workers=1, env={"TABLE": tab}, timeout=300)
    if r["violated"]:
        return False, parse_counterexample(r["out"])
    return True, None


def replay(ctx, path, pid):
    rows = [l for l in core.read_ndjson(path) if "_meta" not in l]
    if rows and rows[0].get("k") == "probe":
        n = probe_signatures(ctx, pid)
        if n == 0:
            print("replay accepted: every signature row compiles")
        return 1 if n else 0
    drivers = build_drivers(ctx, pid)
    if drivers is None:
        for p, t in ctx.violations:
            print("VIOLATION property=%s replay=%s" % (pid, path))
            print("  " + t[:1500])
        return 1
    want = rows[0].get("build") if rows else None
    tags = [t for t, _, _ in drivers.items if want is None or t in (drivers.ref, want)]
    if want and want not in tags:
        raise MachineryError("the replay names the driver build %r, which this tier does not build (try --tier thorough)" % want)
    bad = 0
    tabs = {}
    for tag in tags:
        ok, ce = run_replay(ctx, drivers.path(tag), rows, "replay-" + tag)
        tabs[tag] = os.path.join(ctx.work, "replay", "replay-%s.ndjson" % tag)
        if ok:
            print("replay accepted (build %s): the recorded operands now conform to Half.tla" % tag)
        else:
            bad += 1
            print("VIOLATION property=%s replay=%s" % (pid, path))
            print("  build %s: %s" % (tag, (ce or {}).get("text", "?")[:1500]))
    for tag in tags[1:]:
        ta, tb = tabs[tags[0]], tabs[tag]
        if os.path.exists(ta) and os.path.exists(tb) and crash_row(ta) is None and crash_row(tb) is None:
            summ, hard = diff_recordings(ta, tb)
            if hard:
                bad += 1
                print("VIOLATION property=%s replay=%s" % (pid, path))
                print("  results differ between the builds %s and %s at a non-NaN operand: %s" % (tags[0], tag, json.dumps(hard[:3])))
    return 1 if bad else 0


# ------------------------------------------------------------------ operand pairs chosen by the oracle's case analysis
def case_search_space(seed, quick, op):
    """The bounded search of specs/HalfCases.tla (inputs only).  Part 1, regimes: first operands = every exponent field x a few
    fractions, second operands = every exponent field x (fractions with at most two bits set, complements of single bits, seeded
    random ones) x both signs - any alignment distance and any result range (subnormal, overflow) with simple dropped parts.
    Part 2, patterns: first operands at a few exponent fields with many fractions (boundary and seeded random ones) against EVERY
    fraction at a few exponent fields - any pattern of dropped bits (exact ties, one unit beside a tie) in the normal and the
    subnormal result range."""
    rnd = random.Random(seed * 6007 + 11)
    my = {0}
    for i in range(10):
        my.add(1 << i)
        my.add(0x3FF ^ (1 << i))
        for j in range(i):
            my.add((1 << i) | (1 << j))
    my.add(0x3FF)
    mx = [0, 0x3FF, 0x155, 1] if quick else [0, 0x3FF, 0x155, 1, 0x200, 0x2AA, 0x3FE, 0x1FF, 0x201, 2]
    for _ in range(1 if quick else 2):
        mx.append(rnd.getrandbits(10))
    for _ in range(8 if quick else 60):
        my.add(rnd.getrandbits(10))
    fr = [0, 1, 2, 3, 0x1FF, 0x200, 0x201, 0x3FE, 0x3FF, 0x155, 0x2AA, 0x0FF, 0x100, 0x101, 0x333, 0x0CC]
    while len(fr) < (40 if quick else 160):
        v = rnd.getrandbits(10) | (rnd.getrandbits(1))        # odd fractions twice as often: products and quotients with low bits set
        if v not in fr:
            fr.append(v)
    # pattern part: operands around 1 (results in the normal range) and, for products / quotients / remainders, an exponent pairing
    # that puts the result into the subnormal range
    xm = [(15 << 10) | m for m in fr] + [(2 << 10) | m for m in fr[:(12 if quick else 60)]]
    yme = [15, 13] if quick else [15, 14, 13, 3, 16, 25]
    return {"EX": list(range(32)), "MX": sorted(set(mx)), "EY": list(range(32)), "MY": sorted(my), "XPLUS": XPLUS, "YPLUS": [], "XM": sorted(set(xm) - set(XPLUS)), "YME": yme}


XPLUS = [0x8000, 0xFC00, 0xFE00, 0x8400, 0xFBFF, 0x8001]


def write_cases_cfg(path, op, sp):
    def st(xs):
        return "{" + ", ".join(str(v) for v in xs) + "}"
    with open(path, "w") as f:
        f.write("SPECIFICATION Spec\nCONSTANTS\n OP = \"%s\"\n" % op)
        for k in ("EX", "MX", "EY", "MY", "XPLUS", "YPLUS", "XM", "YME"):
            f.write(" %s = %s\n" % (k, st(sp[k])))
        f.write("INVARIANT KeyConsistent\nVIEW View\nCHECK_DEADLOCK FALSE\n")


_RE_DUMP = re.compile(r"/\\ x = (\d+)\s*\n/\\ y = (\d+)\s*\n/\\ ph = (\d+)")


def enumerate_cases(ctx, op, sp, name):
    """TLC enumerates the search space with VIEW = case key: distinct states = cases reached, the dumped states = one witness pair
    per case.  One worker: the witness TLC keeps for a case is then the first in its deterministic search order."""
    d = ctx.sub("cases")
    cfg = os.path.join(d, name + ".cfg")
    dump = os.path.join(d, name + ".dump")
    write_cases_cfg(cfg, op, sp)
    r = core.tlc(ctx, "HalfCases", cfg, name=name, workers=1, extra=["-dump", dump], timeout=3000, heap="3g")
    if r["violated"] or r["rc"] != 0:
        raise MachineryError("HalfCases: the case analysis of %s does not reproduce Half.tla's operator (%s) - an oracle bug, see %s" % (op, r["violated"], r["outfile"]))
    with open(dump) as f:
        st = _RE_DUMP.findall(f.read())
    pairs = [(int(x), int(y)) for x, y, ph in st if ph == "1"]
    nx = sum(1 for _, _, ph in st if ph == "0")
    if len(pairs) + nx != r["distinct"] or not pairs:
        raise MachineryError("HalfCases %s: %d states dumped, TLC reports %d distinct (see %s)" % (name, len(pairs) + nx, r["distinct"], r["outfile"]))
    r["out"] = ""
    ctx.cov["states"] += r["distinct"]
    ctx.cov["transitions"] += r["generated"]
    return pairs, r


def pair_rows(f, pairs, per=1024, rm=None):
    rows = []
    for n, c in enumerate(chunks(pairs, per)):
        r = {"k": "pair", "f": f, "x": [p[0] for p in c], "y": [p[1] for p in c]}
        if rm is not None:
            r["rm"] = 1 + (rm + n) % 3
        rows.append(r)
    return rows


def case_job(ctx, op, counts, pid="C08"):
    """A job whose rows are the witness pairs TLC enumerates for op.  C08: evaluated as given, swapped, with the second operand
    negated (subtraction is addition of the negated operand), in compound-assignment form, and once more under a directed
    rounding direction of the calling thread.  C09: the functions whose case analysis is the same (fdim - addition; fmax, fmin,
    nextafter - comparison; fmod, remainder, remquo - their own)."""
    def rows():
        pairs, r = enumerate_cases(ctx, op, case_search_space(ctx.seed, ctx.quick, op), "cases-" + op)
        counts[op] = {"cases": len(pairs), "search_space": r["generated"], "tlc_wall_s": r["wall_s"]}
        ctx.sample({"case_witness_pairs_" + op: ["0x%04X, 0x%04X" % p for p in pairs[len(pairs) // 2:len(pairs) // 2 + 6]]})
        swapped = [(b, a) for a, b in pairs]
        negy = [(a, b ^ 0x8000) for a, b in pairs]
        out = [hdr(S=[0])]
        if pid == "C08":
            if op == "add":
                out += pair_rows("add", pairs) + pair_rows("add", swapped) + pair_rows("sub", negy) + pair_rows("sub", [(b ^ 0x8000, a ^ 0x8000) for a, b in pairs])
                out += pair_rows("add_eq", pairs) + pair_rows("sub_eq", negy) + pair_rows("add", pairs, rm=ctx.seed) + pair_rows("sub", negy, rm=ctx.seed + 1)
            elif op == "mul":
                out += pair_rows("mul", pairs) + pair_rows("mul", swapped) + pair_rows("mul_eq", pairs) + pair_rows("mul", pairs, rm=ctx.seed)
            elif op == "div":
                out += pair_rows("div", pairs) + pair_rows("div_eq", pairs) + pair_rows("div", pairs, rm=ctx.seed)
            elif op == "cmp":
                out += pair_rows("cmp", pairs) + pair_rows("cmp", swapped) + pair_rows("cmp", pairs, rm=ctx.seed)
        else:
            if op == "add":
                out += pair_rows("fdim", negy) + pair_rows("fdim", [(b ^ 0x8000, a ^ 0x8000) for a, b in pairs]) + pair_rows("fdim", negy, rm=ctx.seed)
            elif op == "cmp":
                for f in ("fmax", "fmin", "nextafter", "fdim"):
                    out += pair_rows(f, pairs) + pair_rows(f, swapped)
                out += pair_rows("nextafter", pairs, rm=ctx.seed)
            elif op == "mod":
                for f in ("fmod", "remainder", "remquo"):
                    out += pair_rows(f, pairs) + pair_rows(f, negy)
                out += pair_rows("remainder", pairs, rm=ctx.seed) + pair_rows("fmod", pairs, rm=ctx.seed + 1) + pair_rows("remquo", pairs, rm=ctx.seed + 2)
        return out
    return Job("cases-" + op, rows)


def grid_case_count_job(ctx, op, S, counts):
    """How many cases of HalfCases.tla does the structured grid S x S reach?  (a TLC count only: the pairs are executed by the
    S x S jobs themselves)"""
    def rows():
        sp = {"EX": [], "MX": [], "EY": [], "MY": [], "XPLUS": list(S), "YPLUS": list(S), "XM": [], "YME": []}
        pairs, r = enumerate_cases(ctx, op, sp, "gridcases-" + op)
        counts[op] = {"cases": len(pairs), "search_space": r["generated"], "tlc_wall_s": r["wall_s"]}
        return [hdr(S=[0])]
    return Job("gridcases-" + op, rows)


def specials_job(name, ops, extra=()):
    """REQUIRED x REQUIRED (and further boundary operands) for each binary operation, as a table of its own: a defect confined
    to signed zeros, the subnormal boundary, the overflow threshold or NaNs is reported on its own and never depends on a seed."""
    S = list(REQUIRED) + [h for h in extra if h not in REQUIRED]
    rows = [hdr(S=S)]
    for op in ops:
        if op == "nexttoward":
            rows += [{"k": "nt", "f": "nexttoward", "a": a} for a in S]
        else:
            rows += bin_rows(op, S)
    return Job(name, rows)


def with_rm(rows, start):
    """The same request rows, each evaluated under a directed rounding direction of the calling thread (1 upward, 2 downward,
    3 toward zero, rotating from start)."""
    out = []
    for n, r0 in enumerate(rows):
        r1 = dict(r0)
        r1["rm"] = 1 + (start + n) % 3
        out.append(r1)
    return out


def run_laws(ctx, cfg, name, workers=None):
    r = core.tlc_model_check(ctx, "HalfLaws", cfg, "laws of the oracle Half.tla (all 65 536 halves)", name=name,
                             workers=workers, timeout=2400, coverage=False)
    if r["violated"] or r["rc"] != 0:
        raise MachineryError("the oracle Half.tla violates its own law set %s (an oracle bug, not a finding about xtl), see %s" % (r["violated"], r["outfile"]))
    if r["distinct"] != 65536:
        raise MachineryError("HalfLaws visited %d states instead of 65536, see %s" % (r["distinct"], r["outfile"]))
    return r


def selftest(ctx, pid):
    """Binding demonstration on the recording itself: a small recorded table is accepted; the same table with one
    recorded field changed is rejected by TLC exactly at that evaluation; a table with one entry removed is rejected."""
    drivers = build_drivers(ctx, pid)
    if drivers is None:
        return 1
    sw = drivers.path("sw")
    S = small_grid(ctx.seed, 48)
    fns = ("sqrt", "h2f") if pid == "C08" else ("rint", "frexp")
    ops = ("add", "div") if pid == "C08" else ("remainder", "nextafter")
    rows = [hdr(S=S)] + unary_rows(fns, block=4096, lo=12288, hi=20480)
    for op in ops:
        rows += bin_rows(op, S)
    d = ctx.sub("selftest")
    req, tab = os.path.join(d, "t.req"), os.path.join(d, "t.ndjson")
    write_req(req, rows)
    run_driver(ctx, sw, req, tab)
    n = count_evals(rows)
    ok = True

    def check(path, name):
        r = core.tlc(ctx, "HalfCheck", "HalfCheck.cfg", name=name, workers=2, env={"TABLE": path}, timeout=900)
        return r, (parse_counterexample(r["out"]) if r["violated"] else None)
    r, ce = check(tab, "selftest-clean")
    print("selftest %s: clean recording: %s (%d states for %d evaluations)" % (pid, "accepted" if not r["violated"] else "REJECTED", r["distinct"], n))
    ok &= (not r["violated"]) and r["distinct"] == n
    with open(tab) as f:
        lines = [json.loads(x) for x in f if x.strip()]
    rnd = random.Random(ctx.seed)
    for trial in range(3):
        for _ in range(200):                # a cell whose recorded value is not a NaN (all NaNs are one result for the specification)
            l = rnd.randrange(2, len(lines) + 1)
            row = json.loads(json.dumps(lines[l - 1]))
            j = rnd.randrange(1, len(row["r"]) + 1)
            if (row["r"][j - 1] & 0x7FFF) <= 0x7C00 or row["f"] == "h2f":
                break
        row["r"][j - 1] ^= 1 << rnd.randrange(0, 10)
        bad = os.path.join(d, "bad%d.ndjson" % trial)
        with open(bad, "w") as f:
            for i, x in enumerate(lines, 1):
                f.write(json.dumps(row if i == l else x, separators=(",", ":")) + "\n")
        r, ce = check(bad, "selftest-corrupt%d" % trial)
        hit = bool(ce) and ce.get("l") == l and ce.get("j") == j
        # a changed NaN payload / zero sign where the specification admits both is legitimately accepted
        print("selftest %s: field r[%d] of row %d (%s) changed: %s" % (pid, j, l, row["f"], "rejected at exactly that evaluation" if hit else
              ("accepted" if not r["violated"] else "rejected elsewhere: %s" % (ce or {}).get("text", "?")[:200])))
        if not hit:
            a, b = lines[l - 1]["r"][j - 1], row["r"][j - 1]
            both_nan = (a & 0x7FFF) > 0x7C00 and (b & 0x7FFF) > 0x7C00 and row["f"] not in ("h2f",)
            ok &= both_nan
    return 0 if ok else 1

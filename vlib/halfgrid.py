"""Shared machinery of the C08 / C09 checks (half_float::half against specs/Half.tla).

Operand grids and request files (inputs only - nothing here predicts a result), the two harness
builds (with and without F16C), TLC table validation jobs (specs/HalfCheck.tla), extraction of the
failing operand tuple from TLC's counterexample, confirmation by re-execution, replay."""
import json, os, random, re, struct, hashlib, subprocess
from concurrent.futures import ThreadPoolExecutor
from vlib import core
from vlib.core import MachineryError

DRIVER_SRC = os.path.join(core.HARNESS, "half", "driver.cpp")

# ------------------------------------------------------------------ encodings (input generation only)
def h2py(bits):
    return struct.unpack("<e", struct.pack("<H", bits & 0xFFFF))[0]


def py2h(x):
    """nearest half bits of a Python float; used only to *choose* operands (e.g. a z close to -x*y)"""
    try:
        return struct.unpack("<H", struct.pack("<e", x))[0]
    except (OverflowError, struct.error):
        return 0x7C00 if x > 0 else 0xFC00


def f32_limbs(bits32):
    return (bits32 >> 16) & 0xFFFF, bits32 & 0xFFFF


def f32_bits(x):
    return struct.unpack("<I", struct.pack("<f", x))[0]


def f64_bits(x):
    return struct.unpack("<Q", struct.pack("<d", x))[0]


def f64_limbs(b):
    return (b >> 48) & 0xFFFF, (b >> 32) & 0xFFFF, (b >> 16) & 0xFFFF, b & 0xFFFF


# ------------------------------------------------------------------ grids
MANT8 = [0, 0x3FF, 1, 0x200, 0x1FF, 0x3FE, 0x201, 2]
MANT_MORE = [3, 4, 5, 7, 8, 0xFF, 0x100, 0x101, 0x155, 0x2AA, 0x300, 0x333, 0x0CC, 0x3FC, 0x3FD, 0x1FE, 0x202, 0x3F0, 0x00F, 0x2FF,
             0x17F, 0x180, 0x3C0, 0x040]


def grid(seed, size, salt=0):
    """Structured boundary grid: every exponent x boundary fractions x both signs (zeros, subnormals,
    infinities, quiet and signalling NaNs included), then further fractions, then seeded random halves."""
    rnd = random.Random(seed * 7919 + salt)
    S = []
    seen = set()

    def add(h):
        if h not in seen and len(S) < size:
            seen.add(h)
            S.append(h)
    room = size - max(16, size // 8)          # at least an eighth of the grid is seeded random halves
    for m in MANT8:
        for e in range(32):
            for s in (0, 1):
                if len(S) < room:
                    add((s << 15) | (e << 10) | m)
    extra = list(MANT_MORE)
    rnd.shuffle(extra)
    for m in extra:
        for e in range(31):
            for s in (0, 1):
                if len(S) < room:
                    add((s << 15) | (e << 10) | m)
    while len(S) < size:
        add(rnd.getrandbits(16))
    return S


def small_grid(seed, size, salt=0):
    """A sub-grid for costly checks: one fraction per exponent and sign, a few boundaries, random rest."""
    rnd = random.Random(seed * 104729 + salt)
    S, seen = [], set()

    def add(h):
        if h not in seen and len(S) < size:
            seen.add(h); S.append(h)
    for h in (0, 0x8000, 0x7C00, 0xFC00, 0x7E00, 0x7D00, 1, 0x8001, 0x3FF, 0x400, 0x7BFF, 0xFBFF, 0x3C00, 0xBC00):
        add(h)
    for e in range(31):
        for s in (0, 1):
            add((s << 15) | (e << 10) | rnd.choice(MANT8 + [rnd.getrandbits(10)]))
    while len(S) < size:
        add(rnd.getrandbits(16))
    return S


def hdr(S=None, E=None):
    d = {"k": "hdr", "f": "hdr"}
    if S is not None:
        d["S"] = list(S)
    if E is not None:
        d["E"] = list(E)
    return d


def unary_rows(fns, block=2048, lo=0, hi=65536):
    rows = []
    for f in fns:
        for b in range(lo, hi, block):
            rows.append({"k": "un", "f": f, "base": b, "n": min(block, hi - b)})
    return rows


def bin_rows(f, A):
    return [{"k": "bin", "f": f, "a": a} for a in A]


def float_inputs(seed, quick):
    """binary32 inputs for float->half: for every finite half its exact value, the float neighbours, the
    midpoint to the next half and the float neighbours of that midpoint; float subnormals; the overflow
    threshold; NaNs; seeded random floats."""
    rnd = random.Random(seed * 31337 + 5)
    out = []
    for h in range(0x0000, 0x7C00):              # positive finite halves; sign chosen per value below
        # exact float of h: built from the fields (no arithmetic needed)
        if h == 0:
            fb = 0
        elif h < 0x400:
            L = h.bit_length()
            fb = ((L - 25 + 127) << 23) | ((h << (24 - L)) & 0x7FFFFF)
        else:
            fb = (((h >> 10) - 15 + 127) << 23) | ((h & 0x3FF) << 13)
        # midpoint between h and h+1 in float bits: halves are 2^13 float ulps apart in the normal range
        if h >= 0x400:
            mid = fb + (1 << 12)
            cands = [fb, fb + 1, fb - 1, mid, mid - 1, mid + 1]
        else:
            # subnormal halves: spacing 2^-24; midpoint = (2h+1) * 2^-25
            n = 2 * h + 1
            L = n.bit_length()
            mid = ((L - 26 + 127) << 23) | ((n << (24 - L)) & 0x7FFFFF)
            cands = [fb, fb + 1, max(fb - 1, 0), mid, mid - 1, mid + 1]
        boundary = (h & 0x3FF) in (0, 1, 0x1FF, 0x200, 0x3FE, 0x3FF)
        if quick and (h & 3) != 0 and not boundary:
            cands = cands[:1] + cands[3:4]        # quick: every value exactly + its midpoint; full set on every 4th and at boundaries
        if boundary or h % (64 if quick else 8) == 5:
            # a single sticky bit at every position below the guard bit, above and below the midpoint
            nb = 12 if h >= 0x400 else 24
            for kbit in range(0, nb):
                cands.append(mid + (1 << kbit))
                cands.append(mid - (1 << kbit))
                cands.append(fb + (1 << kbit))
        s = 0x80000000 if (h * 2654435761) & 0x10000 else 0
        for c in cands:
            out.append((c & 0x7FFFFFFF) | s)
    # overflow region, infinities, NaNs, float subnormals and tiny values
    special = [0x477FE000, 0x477FE001, 0x477FEFFF, 0x477FF000, 0x477FF001, 0x477FFFFF, 0x47800000, 0x47800001, 0x7F7FFFFF, 0x7F800000,
               0x7F800001, 0x7FC00000, 0x7FFFFFFF, 0x7FA00000, 0x7F801000, 0x7F802000, 0x7F800FFF, 0x00000000, 0x00000001, 0x007FFFFF, 0x00800000,
               0x33000000, 0x33000001, 0x32FFFFFF, 0x33800000, 0x337FFFFF, 0x33800001, 0x33C00000, 0x33C00001, 0x33BFFFFF, 0x38800000, 0x387FFFFF,
               0x387FE000, 0x387FF000, 0x387FEFFF, 0x387FF001, 0x3F800000]
    for v in special:
        out.append(v)
        out.append(v | 0x80000000)
    for _ in range(20000 if quick else 200000):
        t = rnd.random()
        if t < 0.5:        # exponent range of half, random fraction
            e = rnd.randrange(127 - 27, 127 + 17)
            out.append((rnd.getrandbits(1) << 31) | (e << 23) | rnd.getrandbits(23))
        elif t < 0.8:      # near a half rounding boundary: low 13 bits close to 0x1000
            e = rnd.randrange(127 - 14, 127 + 16)
            low = 0x1000 + rnd.choice([-2, -1, 0, 1, 2, rnd.randrange(-64, 64)])
            out.append((rnd.getrandbits(1) << 31) | (e << 23) | (rnd.getrandbits(10) << 13) | (low & 0x1FFF))
        else:
            out.append(rnd.getrandbits(32))
    return out


def double_inputs(seed, quick):
    """binary64 inputs for double->half: exact values, midpoints, midpoint +- one double ulp and midpoint +-
    an amount below half a *float* ulp (a conversion that first rounds to float would turn these into ties)."""
    rnd = random.Random(seed * 271 + 9)
    out = []
    step = 16 if quick else 4
    for h in range(0, 0x7C00):
        if h % step and (h & 0x3FF) not in (0, 1, 0x1FF, 0x200, 0x3FE, 0x3FF):
            continue
        if h == 0:
            db = 0
        elif h < 0x400:
            L = h.bit_length()
            db = ((L - 25 + 1023) << 52) | ((h << (53 - L)) & ((1 << 52) - 1))
        else:
            db = (((h >> 10) - 15 + 1023) << 52) | ((h & 0x3FF) << 42)
        if h >= 0x400:
            mid = db + (1 << 41)
        else:
            n = 2 * h + 1
            L = n.bit_length()
            mid = ((L - 26 + 1023) << 52) | ((n << (53 - L)) & ((1 << 52) - 1))
        s = (1 << 63) if (h * 2654435761) & 0x20000 else 0
        cs = [db, db + 1, max(db - 1, 0), mid, mid + 1, mid - 1, mid + (1 << 20), mid - (1 << 20), mid + (1 << 28), mid - (1 << 28),
              mid + rnd.getrandbits(29), mid - rnd.getrandbits(29), db + rnd.getrandbits(41)]
        if (h & 0x3FF) in (0, 0x3FF, 0x200) or h % 128 == 5:
            for kbit in range(0, 41, 1 if not quick else 3):      # a single sticky bit at each position
                cs += [mid + (1 << kbit), mid - (1 << kbit), db + (1 << kbit)]
        for c in cs:
            out.append((c & ((1 << 63) - 1)) | s)
    special = [0x40EFFC0000000000, 0x40EFFE0000000000, 0x40EFFDFFFFFFFFFF, 0x40EFFE0000000001, 0x40F0000000000000, 0x7FEFFFFFFFFFFFFF,
               0x7FF0000000000000, 0x7FF0000000000001, 0x7FF8000000000000, 0x7FFFFFFFFFFFFFFF, 0x7FF0000100000000, 0, 1, 0x000FFFFFFFFFFFFF,
               0x0010000000000000, 0x3E60000000000000, 0x3E60000000000001, 0x3E5FFFFFFFFFFFFF, 0x3E70000000000000, 0x3E78000000000000,
               0x3E78000000000001, 0x3FF0000000000000, 0x3FF0020000000000, 0x3FF0020000000001, 0x3FF001FFFFFFFFFF, 0x3FF0060000000000,
               0x3FF0020010000000, 0x3FF0060000000001 - 2, 0x36A0000000000000, 0x47EFFFFFE0000000]
    for v in special:
        out.append(v)
        out.append(v | (1 << 63))
    for _ in range(5000 if quick else 50000):
        e = rnd.randrange(1023 - 27, 1023 + 17)
        out.append((rnd.getrandbits(1) << 63) | (e << 52) | rnd.getrandbits(52))
    return out


def int_inputs(seed, quick):
    rnd = random.Random(seed * 17 + 3)
    out = list(range(-4200, 4201)) if quick else list(range(-70000, 70001))
    for k in range(11, 31):
        for d in (-2, -1, 0, 1, 2):
            for s in (1, -1):
                out.append(s * ((1 << k) + d))
                out.append(s * ((1 << k) + (1 << (k - 11)) + d))       # a rounding midpoint of an 11-bit significand
                out.append(s * ((1 << k) + 3 * (1 << (k - 11)) + d))
    out += [65503, 65504, 65505, 65519, 65520, 65521, 65535, 65536, -65519, -65520, -65521, 2147483647, -2147483647, 1073741823, 1073741824, 1073741825]
    for _ in range(3000 if quick else 30000):
        out.append(rnd.randrange(-70000, 70000))
        out.append(rnd.randrange(-(1 << 31) + 1, 1 << 31))
    return [v for v in out if -(1 << 31) < v < (1 << 31)]


def fma_triples(seed, n, S):
    """x, y from the structured grid or random; z random, from the grid, or chosen close to -x*y (cancellation),
    or far below/above the product (sticky paths)."""
    rnd = random.Random(seed * 991 + 77)
    X, Y, Z = [], [], []
    fin = [h for h in S if (h & 0x7C00) != 0x7C00]
    for _ in range(n):
        t = rnd.random()
        x = rnd.choice(S) if t < 0.35 else rnd.getrandbits(16)
        y = rnd.choice(S) if rnd.random() < 0.35 else rnd.getrandbits(16)
        u = rnd.random()
        if u < 0.40:
            p = h2py(x) * h2py(y)
            if p != p or p in (float("inf"), float("-inf")):
                z = rnd.choice(S)
            else:
                z = py2h(-p)
                z = (z + rnd.choice([0, 0, 1, -1, 2, -2, 1 << 10, -(1 << 10), rnd.randrange(-40, 40)])) & 0xFFFF
        elif u < 0.55:
            p = h2py(x) * h2py(y)
            if p != p or p in (float("inf"), float("-inf")) or p == 0:
                z = rnd.choice(fin)
            else:
                k = rnd.choice([-30, -24, -23, -22, -13, -12, -11, -10, 10, 11, 12, 13, 22, 23, 24])
                z = py2h(p * 2.0 ** k * rnd.choice([1, -1]) * rnd.choice([1.0, 1.5, 1.0009765625, 1.9990234375]))
        elif u < 0.75:
            z = rnd.choice(S)
        else:
            z = rnd.getrandbits(16)
        X.append(x); Y.append(y); Z.append(z)
    return X, Y, Z


def chunks(xs, n):
    return [xs[i:i + n] for i in range(0, len(xs), n)]


# ------------------------------------------------------------------ harness
def build_drivers(ctx):
    """The driver is built twice: with the F16C intrinsics path compiled in and without."""
    sw = os.path.join(ctx.work, "half_driver_sw")
    hw = os.path.join(ctx.work, "half_driver_f16c")
    core.build_many(ctx, [dict(src=DRIVER_SRC, out=sw, flags=["-mno-f16c"], asan=False),
                          dict(src=DRIVER_SRC, out=hw, flags=["-mf16c"], asan=False)])
    # the F16C build must really use the intrinsics and the other must not
    for path, want in ((sw, False), (hw, True)):
        rc, out = core.sh(["objdump", "-d", "--no-show-raw-insn", path], timeout=120)
        has = ("vcvtps2ph" in out) or ("vcvtph2ps" in out)
        if rc == 0 and has != want:
            raise MachineryError("harness build %s: F16C instructions %s" % (path, "missing" if want else "unexpectedly present"))
    with open("/proc/cpuinfo") as f:
        if "f16c" not in f.read():
            raise MachineryError("this CPU has no F16C: the intrinsics path cannot be executed")
    return sw, hw


def run_driver(ctx, drv, req_path, out_path, timeout=1200, hang_ok=False):
    with open(req_path) as fin, open(out_path, "w") as fout:
        try:
            p = subprocess.run([drv], stdin=fin, stdout=fout, stderr=subprocess.PIPE, timeout=timeout)
        except subprocess.TimeoutExpired:
            if hang_ok:
                return 124
            raise MachineryError("harness timed out on %s" % req_path)
    if p.returncode == 3:
        raise MachineryError("harness rejected request %s: %s" % (req_path, p.stderr.decode(errors="replace")[-500:]))
    return p.returncode


def write_req(path, rows):
    with open(path, "w") as f:
        for r in rows:
            f.write(json.dumps(r, separators=(",", ":")) + "\n")


def file_sha(path):
    h = hashlib.sha256()
    with open(path, "rb") as f:
        for b in iter(lambda: f.read(1 << 20), b""):
            h.update(b)
    return h.hexdigest()


def crash_row(table_path):
    """If the harness crashed the table ends with a Crash line: return (index of the request that crashed)."""
    n = 0
    with open(table_path) as f:
        for line in f:
            if line.startswith('{"op":"Crash"'):
                return n
            if line.strip():
                n += 1
    return None


# ------------------------------------------------------------------ TLC
_RE_STATE = re.compile(r"State \d+: .*?\n(.*?)(?=\n\s*\nState \d+:|\n\s*\n\d+ states generated|\Z)", re.S)


def parse_counterexample(out):
    """The last state of TLC's error trace, printed through the ALIAS Explain."""
    m0 = re.search(r"is violated by the initial state:\s*\n(.*?)(?:\n\s*\n|\Z)", out, re.S)
    if m0:
        b = m0.group(1)
    else:
        blocks = _RE_STATE.findall(out)
        if not blocks:
            return None
        b = blocks[-1]
    d = {"text": re.sub(r"\s+", " ", b.strip())}
    for key in ("l", "j"):
        m = re.search(r"/\\ %s = (\d+)" % key, b)
        if m:
            d[key] = int(m.group(1))
    m = re.search(r'/\\ f = "(\w+)"', b)
    if m:
        d["f"] = m.group(1)
    return d if "l" in d and "j" in d else None


def replay_rows(table_path, l, j):
    """The request (header + one row restricted to column j) that reproduces evaluation (l, j) of a table."""
    hdr_row, row = None, None
    with open(table_path) as f:
        for i, line in enumerate(f, 1):
            if i == 1:
                hdr_row = json.loads(line)
            if i == l:
                row = json.loads(line)
                break
    if row is None:
        raise MachineryError("cannot find row %d in %s" % (l, table_path))
    k = row["k"]
    c = j - 1
    h = {"k": "hdr", "f": "hdr"}
    if k == "un":
        r = {"k": "un", "f": row["f"], "base": row["base"] + c, "n": 1}
    elif k in ("bin", "nt"):
        h["S"] = [hdr_row["S"][c]]
        r = {"k": k, "f": row["f"], "a": row["a"]}
    elif k == "ld":
        h["E"] = [hdr_row["E"][c]]
        r = {"k": k, "f": row["f"], "a": row["a"]}
    else:
        r = {"k": k, "f": row["f"]}
        for key in ("hi", "lo", "w3", "w2", "w1", "w0", "x", "y", "z", "t"):
            if key in row:
                r[key] = [row[key][c]]
    if "rm" in row:
        r["rm"] = row["rm"]        # the rounding direction the row was evaluated under
    return [h, r]


def _isnan16(h):
    return (h & 0x7FFF) > 0x7C00


def diff_recordings(t_sw, t_hw):
    """Where do the recordings of the two builds differ?  Returns (summary per function, list of differences at
    operands none of which is a NaN).  IEEE 754 leaves the payload/quiet bit of a NaN result open, so differences at
    NaN operands are not findings; any other difference contradicts 'bit-identical with or without F16C'."""
    summ, hard = {}, []
    with open(t_sw) as fa, open(t_hw) as fb:
        S = []
        E = []
        for ln, (la, lb) in enumerate(zip(fa, fb), 1):
            if la == lb:
                if ln == 1:
                    h = json.loads(la); S = h.get("S", []); E = h.get("E", [])
                continue
            a, b = json.loads(la), json.loads(lb)
            k = a.get("k")
            for key in ("r", "r2", "r3", "r4", "r5", "r6", "r7", "r8"):
                if key not in a or a[key] == b.get(key):
                    continue
                for c, (x, y) in enumerate(zip(a[key], b[key])):
                    if x == y:
                        continue
                    if k == "un":
                        nan = _isnan16(a["base"] + c)
                    elif k in ("bin", "nt"):
                        nan = _isnan16(a["a"]) or _isnan16(S[c])
                    elif k == "ld":
                        nan = _isnan16(a["a"])
                    elif k == "f2h":
                        nan = (a["hi"][c] & 0x7F80) == 0x7F80 and ((a["hi"][c] & 0x7F) or a["lo"][c])
                    elif k == "d2h":
                        nan = (a["w3"][c] & 0x7FF0) == 0x7FF0 and ((a["w3"][c] & 0xF) or a["w2"][c] or a["w1"][c] or a["w0"][c])
                    elif k == "fma":
                        nan = _isnan16(a["x"][c]) or _isnan16(a["y"][c]) or _isnan16(a["z"][c])
                    else:
                        nan = False
                    summ[a["f"]] = summ.get(a["f"], 0) + 1
                    if not nan and len(hard) < 20:
                        hard.append({"l": ln, "j": c + 1, "f": a["f"], "field": key, "software": x, "f16c": y})
    return summ, hard


class Job:
    def __init__(self, name, rows, hang_timeout=None):
        self.name, self.rows = name, rows
        self.n_eval = 0
        self.hang_timeout = hang_timeout      # tiny jobs only: a harness that does not finish in this many seconds is a finding


HANG_TIMEOUT = 60


def count_evals(rows, per_fn=None):
    S = E = 0
    n = 0
    for r in rows:
        n0 = n
        k = r["k"]
        if k == "hdr":
            S, E = len(r.get("S", [])), len(r.get("E", []))
        elif k == "un":
            n += r["n"]
        elif k in ("bin", "nt"):
            n += S
        elif k == "ld":
            n += E
        else:
            for key in ("hi", "w3", "x", "t"):
                if key in r:
                    n += len(r[key])
                    break
        if per_fn is not None and k != "hdr":
            per_fn[r["f"]] = per_fn.get(r["f"], 0) + (n - n0)
    return n


def validate_jobs(ctx, jobs, sw, hw, parallel=None, workers=None, what="C08"):
    """For each job: run both harness builds, compare the recordings, let TLC validate the recording
    (and the second one too if it differs).  Violations are confirmed by re-execution before they are
    reported.  Returns the list of per-job summaries."""
    tdir = ctx.sub("tables")
    only = os.environ.get("VERIF_HALF_ONLY")          # development aid: run only the jobs whose name starts with one of these prefixes
    if only:
        jobs = [j for j in jobs if any(j.name.startswith(p) for p in only.split(","))]
        ctx.notes["job_filter"] = "PARTIAL RUN: VERIF_HALF_ONLY=%s" % only
        ctx.log("PARTIAL RUN (VERIF_HALF_ONLY=%s): %d jobs" % (only, len(jobs)))
    parallel = parallel or max(2, core.NCPU // 2)
    workers = workers or max(2, core.NCPU // parallel)
    summaries = []

    def one(job):
        req = os.path.join(tdir, job.name + ".req")
        t_sw = os.path.join(tdir, job.name + ".sw.ndjson")
        t_hw = os.path.join(tdir, job.name + ".f16c.ndjson")
        write_req(req, job.rows)
        job.per_fn = {}
        job.n_eval = count_evals(job.rows, job.per_fn)
        if job.hang_timeout:
            for tag, drv, tp in (("sw", sw, t_sw), ("f16c", hw, t_hw)):
                if run_driver(ctx, drv, req, tp, timeout=job.hang_timeout, hang_ok=True) == 124:
                    return {"job": job.name, "evaluations": job.n_eval, "f16c_identical": True,
                            "fails": [{"build": tag, "hang": True, "rows": job.rows, "timeout": job.hang_timeout}]}
        else:
            run_driver(ctx, sw, req, t_sw)
            run_driver(ctx, hw, req, t_hw)
        same = file_sha(t_sw) == file_sha(t_hw)
        res = {"job": job.name, "evaluations": job.n_eval, "f16c_identical": same, "fails": []}
        if not same:
            res["f16c_diff"], hard = diff_recordings(t_sw, t_hw)
            for hd in hard[:3]:
                res["fails"].append({"build": "f16c", "table": t_hw, "l": hd["l"], "j": hd["j"], "f": hd["f"], "builds_differ": hd,
                                     "text": "results differ between the builds: %s" % json.dumps(hd)})
        for tag, path in (("sw", t_sw),) + ((() if same else (("f16c", t_hw),))):
            cr = crash_row(path)
            if cr is not None:
                res["fails"].append({"build": tag, "table": path, "crash_at_request": cr})
                continue
            r = core.tlc(ctx, "HalfCheck", "HalfCheck.cfg", name="chk-%s-%s" % (job.name, tag), workers=workers,
                         env={"TABLE": path}, heap="5g", timeout=3000)
            res.setdefault("tlc", []).append({"build": tag, "states": r["distinct"], "wall_s": r["wall_s"]})
            if r["violated"]:
                ce = parse_counterexample(r["out"])
                if ce is None:
                    raise MachineryError("TLC reported %s but no counterexample could be read, see %s" % (r["violated"], r["outfile"]))
                ce["build"], ce["table"] = tag, path
                res["fails"].append(ce)
            elif r["distinct"] != job.n_eval:
                raise MachineryError("TLC visited %d states, the table %s has %d evaluations (see %s)" % (r["distinct"], path, job.n_eval, r["outfile"]))
            r["out"] = ""
        return res

    with ThreadPoolExecutor(max_workers=parallel) as ex:
        for res in ex.map(one, jobs):
            summaries.append(res)
            ctx.cov["evaluations"] += res["evaluations"] * (1 if res["f16c_identical"] else 2)
    per_fn = {}
    for job in jobs:
        for f, c in getattr(job, "per_fn", {}).items():
            per_fn[f] = per_fn.get(f, 0) + c
    ctx.notes["evaluations_per_function"] = per_fn
    ctx.notes["vacuous_functions"] = sorted(f for f, c in per_fn.items() if c == 0)
    # confirm and report
    for res in summaries:
        for fl in res["fails"]:
            confirm_and_report(ctx, fl, sw, hw, what)
    return summaries


def confirm_and_report(ctx, fl, sw, hw, what):
    if fl.get("hang"):
        drv = sw if fl["build"] == "sw" else hw
        d = ctx.sub("replay")
        req = os.path.join(d, "hang.req")
        write_req(req, fl["rows"])
        if run_driver(ctx, drv, req, os.path.join(d, "hang.ndjson"), timeout=fl["timeout"], hang_ok=True) != 124:
            raise MachineryError("non-reproducible harness time-out on %s" % json.dumps(fl["rows"])[:300])
        ctx.violation("%s: a call does not terminate: the harness (build %s) did not finish %s within %d s (twice)" % (
            what, fl["build"], json.dumps(fl["rows"][1:])[:300], fl["timeout"]), replay_lines=fl["rows"])
        return
    if "crash_at_request" in fl:
        with open(fl["table"].replace(".sw.ndjson", ".req").replace(".f16c.ndjson", ".req")) as f:
            lines = [json.loads(x) for x in f if x.strip()]
        rows = [lines[0], lines[fl["crash_at_request"]]]
        ctx.violation("%s: the harness crashed (signal/terminate) while evaluating request %s (build %s)" % (
            what, json.dumps(rows[1])[:300], fl["build"]), replay_lines=rows)
        return
    rows = replay_rows(fl["table"], fl["l"], fl["j"])
    if "builds_differ" in fl:
        d = ctx.sub("replay")
        req = os.path.join(d, "diff-%d-%d.req" % (fl["l"], fl["j"]))
        write_req(req, rows)
        run_driver(ctx, sw, req, req + ".sw")
        run_driver(ctx, hw, req, req + ".f16c")
        if file_sha(req + ".sw") == file_sha(req + ".f16c"):
            raise MachineryError("non-reproducible difference between the builds: %s" % fl["text"])
        ctx.violation("%s: result not bit-identical with and without F16C at a non-NaN operand: %s" % (what, fl["text"]), replay_lines=rows)
        return
    drv = sw if fl["build"] == "sw" else hw
    ok, ce = run_replay(ctx, drv, rows, "confirm-%s-%d-%d" % (fl.get("f", "x"), fl["l"], fl["j"]))
    if ok:
        raise MachineryError("non-reproducible rejection: %s was rejected in the table run but accepted when re-executed alone" % fl["text"][:400])
    ctx.violation("%s: half_float::half disagrees with Half.tla (build %s): %s" % (what, "F16C" if fl["build"] == "f16c" else "software", (ce or fl)["text"][:1500]),
                  replay_lines=rows)


def run_replay(ctx, drv, rows, name):
    d = ctx.sub("replay")
    req = os.path.join(d, name + ".req")
    tab = os.path.join(d, name + ".ndjson")
    write_req(req, rows)
    if run_driver(ctx, drv, req, tab, timeout=HANG_TIMEOUT, hang_ok=True) == 124:
        return False, {"text": "the call does not terminate (harness still running after %d s)" % HANG_TIMEOUT}
    if crash_row(tab) is not None:
        return False, {"text": "harness crashed"}
    r = core.tlc(ctx, "HalfCheck", "HalfCheck.cfg", name=name, workers=1, env={"TABLE": tab}, timeout=300)
    if r["violated"]:
        return False, parse_counterexample(r["out"])
    return True, None


def replay(ctx, path, pid):
    rows = [l for l in core.read_ndjson(path) if "_meta" not in l]
    sw, hw = build_drivers(ctx)
    bad = 0
    for tag, drv in (("software", sw), ("F16C", hw)):
        ok, ce = run_replay(ctx, drv, rows, "replay-" + tag)
        if ok:
            print("replay accepted (%s build): the recorded operands now conform to Half.tla" % tag)
        else:
            bad += 1
            print("VIOLATION property=%s replay=%s" % (pid, path))
            print("  %s build: %s" % (tag, (ce or {}).get("text", "?")[:1500]))
    d = os.path.join(ctx.work, "replay")
    ta, tb = os.path.join(d, "replay-software.ndjson"), os.path.join(d, "replay-F16C.ndjson")
    if os.path.exists(ta) and os.path.exists(tb):
        summ, hard = diff_recordings(ta, tb)
        if hard:
            bad += 1
            print("VIOLATION property=%s replay=%s" % (pid, path))
            print("  results differ between the software and the F16C build at a non-NaN operand: %s" % json.dumps(hard[:3]))
    return 1 if bad else 0


def run_laws(ctx, cfg, name, workers=None):
    r = core.tlc_model_check(ctx, "HalfLaws", cfg, "laws of the oracle Half.tla (all 65 536 halves)", name=name,
                             workers=workers, timeout=2400, coverage=False)
    if r["violated"] or r["rc"] != 0:
        raise MachineryError("the oracle Half.tla violates its own law set %s (an oracle bug, not a finding about xtl), see %s" % (r["violated"], r["outfile"]))
    if r["distinct"] != 65536:
        raise MachineryError("HalfLaws visited %d states instead of 65536, see %s" % (r["distinct"], r["outfile"]))
    return r


def selftest(ctx, pid):
    """Binding demonstration on the recording itself: a small recorded table is accepted; the same table with one
    recorded field changed is rejected by TLC exactly at that evaluation; a table with one entry removed is rejected."""
    sw, hw = build_drivers(ctx)
    S = small_grid(ctx.seed, 48)
    fns = ("sqrt", "h2f") if pid == "C08" else ("rint", "frexp")
    ops = ("add", "div") if pid == "C08" else ("remainder", "nextafter")
    rows = [hdr(S=S)] + unary_rows(fns, block=4096, lo=12288, hi=20480)
    for op in ops:
        rows += bin_rows(op, S)
    d = ctx.sub("selftest")
    req, tab = os.path.join(d, "t.req"), os.path.join(d, "t.ndjson")
    write_req(req, rows)
    run_driver(ctx, sw, req, tab)
    n = count_evals(rows)
    ok = True

    def check(path, name):
        r = core.tlc(ctx, "HalfCheck", "HalfCheck.cfg", name=name, workers=2, env={"TABLE": path}, timeout=900)
        return r, (parse_counterexample(r["out"]) if r["violated"] else None)
    r, ce = check(tab, "selftest-clean")
    print("selftest %s: clean recording: %s (%d states for %d evaluations)" % (pid, "accepted" if not r["violated"] else "REJECTED", r["distinct"], n))
    ok &= (not r["violated"]) and r["distinct"] == n
    with open(tab) as f:
        lines = [json.loads(x) for x in f if x.strip()]
    rnd = random.Random(ctx.seed)
    for trial in range(3):
        l = rnd.randrange(2, len(lines) + 1)
        row = json.loads(json.dumps(lines[l - 1]))
        j = rnd.randrange(1, len(row["r"]) + 1)
        row["r"][j - 1] ^= 1 << rnd.randrange(0, 10)
        bad = os.path.join(d, "bad%d.ndjson" % trial)
        with open(bad, "w") as f:
            for i, x in enumerate(lines, 1):
                f.write(json.dumps(row if i == l else x, separators=(",", ":")) + "\n")
        r, ce = check(bad, "selftest-corrupt%d" % trial)
        hit = bool(ce) and ce.get("l") == l and ce.get("j") == j
        # a changed NaN payload / zero sign where the specification admits both is legitimately accepted
        print("selftest %s: field r[%d] of row %d (%s) changed: %s" % (pid, j, l, row["f"], "rejected at exactly that evaluation" if hit else
              ("accepted" if not r["violated"] else "rejected elsewhere: %s" % (ce or {}).get("text", "?")[:200])))
        if not hit:
            a, b = lines[l - 1]["r"][j - 1], row["r"][j - 1]
            both_nan = (a & 0x7FFF) > 0x7C00 and (b & 0x7FFF) > 0x7C00 and row["f"] not in ("h2f",)
            ok &= both_nan
    return 0 if ok else 1

"""Common machinery for the /verif checks: TLC runs, harness builds, trace validation,
verdict classification, evidence files.  Standard library only."""
import json, os, re, shutil, subprocess, sys, time, hashlib
from concurrent.futures import ThreadPoolExecutor

ROOT = os.path.dirname(os.path.dirname(os.path.abspath(__file__)))
SPECS = os.path.join(ROOT, "specs")
HARNESS = os.path.join(ROOT, "harness")
REPO = os.environ.get("VERIF_REPO", "/repo")
INCLUDE = os.environ.get("VERIF_REPO_INCLUDE", os.path.join(REPO, "include"))
TLA_JAR = "/opt/veriftools/tla/tla2tools.jar:/opt/veriftools/tla/CommunityModules-deps.jar"
# VERIF_NCPU caps every kind of parallelism of the checks (TLC workers, parallel builds, parallel TLC jobs);
# meant for development on a shared machine, the registered commands do not set it
NCPU = int(os.environ.get("VERIF_NCPU", "0") or 0) or os.cpu_count() or 4


class MachineryError(Exception):
    """The check itself failed (spec does not parse, harness does not build, time-out).
    Reported with exit status 2, never as a violation."""


def sh(cmd, timeout=None, env=None, cwd=None, stdout=None):
    e = dict(os.environ)
    if env:
        e.update(env)
    try:
        p = subprocess.run(cmd, stdout=stdout or subprocess.PIPE, stderr=subprocess.STDOUT,
                           timeout=timeout, env=e, cwd=cwd, text=True, errors="replace")
        return p.returncode, (p.stdout or "")
    except subprocess.TimeoutExpired as ex:
        out = ex.stdout or ""
        if isinstance(out, bytes):
            out = out.decode(errors="replace")
        return 124, out + "\n[timeout after %ss]" % timeout


class Ctx:
    def __init__(self, pid, tier, seed):
        self.pid, self.tier, self.seed = pid, tier, seed
        self.t0 = time.time()
        self.work = os.path.join(ROOT, ".work", pid)
        shutil.rmtree(self.work, ignore_errors=True)
        os.makedirs(self.work, exist_ok=True)
        self.replays = os.path.join(ROOT, "replays", pid)
        self.violations = []       # (replay_path, text)
        self.known = []            # texts of known findings seen
        self.drift = []            # MODEL-DRIFT notes
        self.tlc_runs = []         # dicts
        self.cov = {"states": 0, "transitions": 0, "traces_validated_against_impl": 0,
                    "events_validated": 0, "samples": [], "evaluations": 0,
                    "distinct_nontrivial": 0}
        self.assumptions = []
        self.notes = {}
        self._n = 0
        self.quick = tier == "quick"

    def sub(self, name):
        d = os.path.join(self.work, name)
        os.makedirs(d, exist_ok=True)
        return d

    def log(self, *a):
        print("[%s %6.1fs]" % (self.pid, time.time() - self.t0), *a, flush=True)

    def sample(self, s, cap=6):
        if len(self.cov["samples"]) < cap:
            self.cov["samples"].append(s)

    # ---------------------------------------------------------------- verdicts
    def violation(self, text, replay_lines=None, replay_path=None):
        os.makedirs(self.replays, exist_ok=True)
        if replay_path is None:
            h = hashlib.sha1((text + json.dumps(replay_lines, sort_keys=True, default=str)).encode()).hexdigest()[:10]
            replay_path = os.path.join(self.replays, "v_%s.ndjson" % h)
            with open(replay_path, "w") as f:
                f.write(json.dumps({"_meta": {"property": self.pid, "what": text}}) + "\n")
                for l in (replay_lines or []):
                    f.write((l if isinstance(l, str) else json.dumps(l)) + "\n")
        self.violations.append((replay_path, text))
        self.log("violation:", text)
        return replay_path


# -------------------------------------------------------------------------- TLC
_RE_STATES = re.compile(r"(\d+) states generated, (\d+) distinct states found")
_RE_DEPTH = re.compile(r"The depth of the complete state graph search is (\d+)")
_RE_COV = re.compile(r"^<(\w+) line (\d+), col \d+ to line \d+, col \d+ of module (\w+)>: (\d+):(\d+)", re.M)


def tlc(ctx, module, cfg, name=None, workers=None, timeout=900, env=None, extra=(), heap="4g",
        simulate=None, dump=None, coverage=False, deadlock=False, dfs_queue=False, specdir=SPECS):
    """Run TLC on specs/<module>.tla with specs/<cfg>.  Returns a dict; never raises on a
    property violation (caller decides), raises MachineryError on parse errors / time-outs."""
    ctx._n += 1
    name = name or "%s-%s" % (module, os.path.splitext(os.path.basename(cfg))[0])
    meta = ctx.sub("tlc-%02d-%s" % (ctx._n, name))
    cmd = ["java", "-XX:+UseParallelGC", "-Xmx" + heap]
    if dfs_queue:
        cmd.append("-Dtlc2.tool.queue.IStateQueue=StateDeque")
    cmd += ["-cp", TLA_JAR, "tlc2.TLC", "-metadir", os.path.join(meta, "states"),
            "-workers", str(workers or NCPU), "-config", os.path.join(specdir, cfg), "-noGenerateSpecTE"]
    if not deadlock:
        cmd.append("-deadlock")     # -deadlock = do NOT check for deadlock
    if coverage:
        cmd += ["-coverage", "1"]
    if simulate:
        cmd += ["-simulate", simulate]
    if dump:
        cmd += ["-dump", dump]
    cmd += list(extra)
    cmd.append(os.path.join(specdir, module + ".tla"))
    t = time.time()
    rc, out = sh(cmd, timeout=timeout, env=env, cwd=meta)
    with open(os.path.join(meta, "out.txt"), "w") as f:
        f.write(" ".join(cmd) + "\n" + out)
    r = {"name": name, "module": module, "cfg": cfg, "rc": rc, "wall_s": round(time.time() - t, 2),
         "out": out, "outfile": os.path.join(meta, "out.txt"), "meta": meta,
         "generated": 0, "distinct": 0, "depth": 0}
    m = _RE_STATES.findall(out)
    if m:
        r["generated"], r["distinct"] = int(m[-1][0]), int(m[-1][1])
    m = _RE_DEPTH.findall(out)
    if m:
        r["depth"] = int(m[-1])
    r["violated"] = None
    m = re.search(r"Error: Invariant (\S+) is violated", out)
    if m:
        r["violated"] = m.group(1)
    elif "Error: Action property" in out or "is violated" in out and "Error:" in out:
        m2 = re.search(r"Error: (?:Action property|Temporal properties|The postcondition) ?(.*)", out)
        r["violated"] = (m2.group(0) if m2 else "property")
    elif "Temporal properties were violated" in out:
        r["violated"] = "temporal"
    if coverage:
        r["coverage"] = {}
        for a, line, mod, d, g in _RE_COV.findall(out):
            key = a
            r["coverage"].setdefault(key, [0, 0])
            r["coverage"][key][0] += int(d)
            r["coverage"][key][1] += int(g)
    if rc == 124:
        raise MachineryError("TLC timed out after %ss: %s (see %s)" % (timeout, name, r["outfile"]))
    if "Parsing or semantic analysis failed" in out or "***Parse Error***" in out or rc >= 150 or \
            ("Error: " in out and "TLC threw an unexpected exception" in out):
        raise MachineryError("TLC error in %s (rc=%s), see %s\n%s" % (name, rc, r["outfile"], out[-3000:]))
    if rc not in (0, 12, 13, 10, 11) and r["violated"] is None:
        raise MachineryError("TLC failed rc=%s in %s, see %s\n%s" % (rc, name, r["outfile"], out[-3000:]))
    ctx.tlc_runs.append({k: r[k] for k in ("name", "module", "cfg", "rc", "wall_s", "generated", "distinct", "depth", "violated")})
    return r


def tlc_model_check(ctx, module, cfg, what, **kw):
    """A TLC run of a design-level spec whose success is required: invariants / refinement.
    A failure here on a spec we wrote is reported by the caller (MODEL-DRIFT or machinery)."""
    r = tlc(ctx, module, cfg, **kw)
    ctx.cov["states"] += r["distinct"]
    ctx.cov["transitions"] += r["generated"]
    ctx.log("TLC %s: %s: %d distinct states, %d transitions, depth %d, %.1fs%s" % (
        r["name"], what, r["distinct"], r["generated"], r["depth"], r["wall_s"],
        "" if not r["violated"] else "  VIOLATED: %s" % r["violated"]))
    return r


# -------------------------------------------------------------------- C++ builds
CXX = os.environ.get("VERIF_CXX", "g++")
BASE_FLAGS = ["-std=c++14", "-O1", "-g", "-fno-omit-frame-pointer", "-Wno-deprecated-declarations"]
ASAN = ["-fsanitize=address"]


def build(ctx, src, out, flags=(), asan=True, cxx=None, timeout=900, include=None):
    cmd = [cxx or CXX] + BASE_FLAGS + (ASAN if asan else []) + ["-I", include or INCLUDE, "-I", os.path.join(HARNESS, "common")] + list(flags) + [src, "-o", out]
    rc, o = sh(cmd, timeout=timeout)
    if rc != 0:
        raise MachineryError("harness does not compile: %s\n%s" % (" ".join(cmd), o[-6000:]))
    return out


def build_many(ctx, jobs, max_workers=None):
    """jobs: list of dict(src,out,flags,asan,cxx).  Parallel compile; raises MachineryError
    with the first failure."""
    def one(j):
        return build(ctx, j["src"], j["out"], j.get("flags", ()), j.get("asan", True), j.get("cxx"), include=j.get("include"))
    with ThreadPoolExecutor(max_workers=max_workers or NCPU) as ex:
        return list(ex.map(one, jobs))


def try_build(ctx, src, out, flags=(), asan=False, cxx=None, timeout=600):
    """Compile where success/failure itself is the observation (static_assert tables)."""
    cmd = [cxx or CXX] + BASE_FLAGS + (ASAN if asan else []) + ["-I", INCLUDE, "-I", os.path.join(HARNESS, "common")] + list(flags) + [src, "-o", out]
    return sh(cmd, timeout=timeout)


ASAN_ENV = {"ASAN_OPTIONS": "detect_leaks=1:abort_on_error=0:exitcode=86:detect_stack_use_after_return=1:allocator_may_return_null=1",
            "UBSAN_OPTIONS": "halt_on_error=1:exitcode=87:print_stacktrace=1"}


def run_bin(ctx, argv, timeout=600, env=None, stdout_path=None):
    e = dict(ASAN_ENV)
    if env:
        e.update(env)
    if stdout_path:
        with open(stdout_path, "w") as f:
            e2 = dict(os.environ); e2.update(e)
            try:
                p = subprocess.run(argv, stdout=f, stderr=subprocess.PIPE, timeout=timeout, env=e2, text=True, errors="replace")
                return p.returncode, p.stderr
            except subprocess.TimeoutExpired:
                return 124, "[timeout after %ss]" % timeout
    return sh(argv, timeout=timeout, env=e)


# -------------------------------------------------------------- trace validation
def read_ndjson(path):
    out = []
    with open(path) as f:
        for line in f:
            line = line.strip()
            if line:
                out.append(json.loads(line))
    return out


def split_executions(lines):
    """Index ranges [start,end) of executions: each starts at a Reset event."""
    starts = [i for i, l in enumerate(lines) if l.lstrip().startswith('{"op":"Reset"')]
    if not starts or starts[0] != 0:
        starts = [0] + starts
    return [(s, e) for s, e in zip(starts, starts[1:] + [len(lines)])]


def validate_trace(ctx, module, cfg, trace_path, name=None, timeout=900, heap="6g", env=None,
                   explain=True):
    """Validate one ndjson trace with the trace spec <module> (reads env TRACE).
    Returns dict(accepted, matched, total, fail_line (0-based index of the rejected event),
    expected (spec's EXPECTED print for that event, if obtainable))."""
    with open(trace_path) as f:
        lines = [l.rstrip("\n") for l in f if l.strip()]
    total = len(lines)
    e = {"TRACE": trace_path, "EXPLAIN": "0"}
    if env:
        e.update(env)
    r = tlc(ctx, module, cfg, name=name or ("tv-" + os.path.basename(trace_path)), workers=1,
            timeout=timeout, env=e, heap=heap)
    matched = max(0, r["depth"] - 1)
    accepted = (matched == total) and r["rc"] == 0
    res = {"accepted": accepted, "matched": matched, "total": total, "tlc": r}
    if not accepted:
        if r["rc"] == 0 and matched == total:
            pass
        res["fail_line"] = matched
        if r["rc"] not in (0, 10, 12, 13):
            raise MachineryError("trace validation run failed (rc=%s) see %s\n%s" % (r["rc"], r["outfile"], r["out"][-2000:]))
        if explain and matched < total:
            res["expected"] = explain_event(ctx, module, cfg, lines, matched, env)
    return res


def execution_of(lines, idx):
    """The lines of the execution (from its Reset) that contains event idx, up to and including idx."""
    s = idx
    while s > 0 and not lines[s].lstrip().startswith('{"op":"Reset"'):
        s -= 1
    return lines[s:idx + 1]


def explain_event(ctx, module, cfg, lines, idx, env=None):
    """Re-run the trace spec on the failing execution only, with EXPLAIN=<n>: at event n the
    spec does not compare but prints what it expected."""
    ex = execution_of(lines, idx)
    p = os.path.join(ctx.work, "explain-%d.ndjson" % ctx._n)
    with open(p, "w") as f:
        f.write("\n".join(ex) + "\n")
    e = {"TRACE": p, "EXPLAIN": str(len(ex))}
    if env:
        e.update({k: v for k, v in env.items() if k not in ("TRACE", "EXPLAIN")})
    try:
        r = tlc(ctx, module, cfg, name="explain", workers=1, timeout=300, env=e)
    except MachineryError as x:
        return "(explain failed: %s)" % str(x)[:300]
    m = re.search(r'(<<\s*"EXPECTED",.*?)\n(?:Finished|Model checking|Progress|The |Error|\d+ states)', r["out"], re.S)
    return re.sub(r"\s+", " ", m.group(1).strip())[:3000] if m else "(no successor: the spec action is not enabled for these arguments, or the logged state is not what the action yields)"


def strip_observed(line):
    """A replay file holds calls only (op, k, a, ...): drop what was observed (res, st)."""
    try:
        d = json.loads(line)
    except Exception:
        return line
    d.pop("res", None)
    d.pop("st", None)
    return json.dumps(d, separators=(",", ":"))


def validate_traces(ctx, module, cfg, trace_paths, classify=None, max_restarts=8, parallel=None, env=None):
    """Validate several trace files in parallel TLC processes.  On a rejection the failing
    execution is cut out (replay), classified, and validation restarts after it.
    classify(event_json, execution_lines) -> None (violation) | str (known-finding key)."""
    results = []

    def one(path):
        out = []
        cur = path
        for attempt in range(max_restarts + 1):
            r = validate_trace(ctx, module, cfg, cur, env=env)
            out.append(r)
            if r["accepted"]:
                break
            with open(cur) as f:
                lines = [l.rstrip("\n") for l in f if l.strip()]
            idx = r["fail_line"]
            r["execution"] = execution_of(lines, idx)
            # continue after the next Reset
            nxt = idx + 1
            while nxt < len(lines) and not lines[nxt].lstrip().startswith('{"op":"Reset"'):
                nxt += 1
            if nxt >= len(lines):
                break
            cur = "%s.rest%d" % (path, attempt + 1)
            with open(cur, "w") as f:
                f.write("\n".join(lines[nxt:]) + "\n")
        return out

    with ThreadPoolExecutor(max_workers=parallel or max(1, NCPU // 2)) as ex:
        for path, rs in zip(trace_paths, ex.map(one, trace_paths)):
            for r in rs:
                ctx.cov["events_validated"] += r["matched"]
                results.append((path, r))
    nexec = 0
    for path, r in results:
        if r["accepted"]:
            continue
        ev = r["execution"][-1]
        try:
            evj = json.loads(ev)
        except Exception:
            evj = {"op": "?"}
        key = classify(evj, r["execution"]) if classify else None
        text = "trace rejected by %s at event %d of %s: %s ; spec expected: %s" % (
            module, r["fail_line"] + 1, os.path.basename(path), ev[:700], r.get("expected", "?")[:1200])
        if key:
            if key not in ctx.known:
                ctx.known.append(key)
        else:
            ctx.violation(text, replay_lines=[strip_observed(x) for x in r["execution"]])
    return results


# ------------------------------------------------------------- known findings
def load_findings(pid):
    p = os.path.join(ROOT, "known_findings.json")
    if not os.path.exists(p):
        return []
    with open(p) as f:
        d = json.load(f)
    return [x for x in d.get("open", []) if x.get("property") == pid]


# ------------------------------------------------------------------ evidence
def finish(ctx, level, rule, assumptions=(), exhaustive=False, extra=None):
    cov = dict(ctx.cov)
    cov["rule"] = rule
    cov["exhaustive"] = bool(exhaustive)
    cov["tlc_runs"] = ctx.tlc_runs
    if ctx.known:
        cov["known_findings_seen"] = ctx.known
    if ctx.drift:
        cov["model_drift"] = ctx.drift
    if extra:
        cov.update(extra)
    cov.update(ctx.notes)
    if not cov["samples"]:
        cov["samples"] = ["(none recorded)"]
    if level != "model_checking":
        for k in ("states", "transitions", "traces_validated_against_impl"):
            if not cov.get(k):
                cov.pop(k, None)
    ev = {"property_id": ctx.pid, "tier": ctx.tier, "seed": ctx.seed, "level": level,
          "coverage": cov, "assumptions": list(assumptions) + ctx.assumptions,
          "wall_s": round(time.time() - ctx.t0, 1), "violations": len(ctx.violations)}
    os.makedirs(os.path.join(ROOT, "evidence"), exist_ok=True)
    # a run against another include tree (mutation / seeded-change experiments) must not overwrite
    # the evidence of /repo itself
    evpath = os.path.join(ROOT, "evidence", ctx.pid + ".json") if "VERIF_REPO_INCLUDE" not in os.environ \
        else os.path.join(ctx.work, "evidence-other-tree.json")
    with open(evpath, "w") as f:
        json.dump(ev, f, indent=1, default=str)
    for k in ctx.known:
        print("KNOWN-FINDING: property=%s %s" % (ctx.pid, k))
    for d in ctx.drift:
        print("MODEL-DRIFT: property=%s %s" % (ctx.pid, d))
    for n, (path, text) in enumerate(ctx.violations):
        print("VIOLATION property=%s replay=%s" % (ctx.pid, path))
        if n < 5:
            print("  " + text[:2500])
    return 1 if ctx.violations else 0
